/* extension API of the HDF5 model (not part of HDF5): inspection of the in-memory "disk" */
#pragma once
#ifdef __cplusplus
extern "C" {
#endif
int h5m_file_exists(const char *name);
unsigned long long h5m_file_mutations(const char *name);
int h5m_file_is_open(const char *name);
int h5m_open_ids(const char *name, int include_file_ids);
void h5m_make_plain_file(const char *name);
void h5m_make_raw_file(const char *name, long long size);
long long h5m_file_size(const char *name);
#ifdef __cplusplus
}
#endif
