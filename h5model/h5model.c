/* h5model - in-memory model of the subset of the HDF5 1.10 C API that nix uses.
 *
 * Plain C, executed symbolically by nixsym like the code under analysis, and also compiled natively
 * (differential validation against libhdf5, see DESIGN.md 2.4).  Models: files as named in-memory
 * trees that survive close (the "disk"), access intents, identifiers with reference counts, groups
 * with hard links / link counts / creation order, attributes, dataspaces with one hyperslab,
 * datatypes as structural values, datasets with extent/maxdims and element-wise converting I/O.
 * Not modelled: file format, chunk cache, compression, locking, error stack.
 */
#include <hdf5.h>
#include <stddef.h>
#include <stdint.h>
#include "h5model.h"

void *malloc(size_t); void free(void *); void *memcpy(void *, const void *, size_t); void *memset(void *, int, size_t);
size_t strlen(const char *); int strcmp(const char *, const char *);

#define MAXID 4096
#define MAXFILES 32
#define NAMEMAX 96
#define MAXRANK 8
#define MAXALLOC 16

enum { K_FREE = 0, K_FILE, K_GROUP, K_DATASET, K_TYPE, K_SPACE, K_ATTR, K_PLIST };

/* ---------- datatypes ---------- */
typedef struct MType MType;
typedef struct { char name[40]; size_t offset; MType *type; long long eval; } MMember;
struct MType {
    H5T_class_t cls; size_t size; H5T_sign_t sign; H5T_cset_t cset; int vlstr;
    int nmem; MMember *mem; MType *base; int immutable;
};

/* ---------- file objects ---------- */
typedef struct MObj MObj;
typedef struct { char name[NAMEMAX]; MObj *target; uint64_t crt; } MLink;
typedef struct { char name[40]; MType *type; int rank; hsize_t dims[MAXRANK]; size_t nelem; unsigned char *data; int cset; } MAttr;
struct MObj {
    int kind;            /* K_GROUP / K_DATASET */
    int file;
    unsigned rc;         /* hard link count */
    int opens;           /* open identifiers */
    MAttr *attrs; int nattr, capattr;
    /* group */
    MLink *links; int nlink, caplink; uint64_t crtnext; int track_order;
    /* dataset */
    MType *type; int rank; hsize_t dims[MAXRANK], maxdims[MAXRANK]; unsigned char *data; size_t nelem; int chunked;
    /* fill time 'never' (H5Pset_fill_time): chunks that were never written are skipped by reads, the caller's buffer keeps its content */
    int fill_never; hsize_t chunk[MAXRANK]; int nalloc; int alloc_all; hsize_t allocd[MAXALLOC][MAXRANK];
};
typedef struct { int used; int exists; char name[NAMEMAX]; MObj *root; int opens; unsigned intent; uint64_t mutations; uint64_t flushes; int not_hdf5; long long raw_size; } MFile;

typedef struct { int rank; hsize_t dims[MAXRANK], maxdims[MAXRANK]; int scalar; int has_sel; hsize_t start[MAXRANK], count[MAXRANK]; } MSpace;
typedef struct { hid_t cls; int rank; hsize_t chunk[MAXRANK]; int has_chunk; int deflate; unsigned crt_order; H5T_cset_t cset; int fill_never; } MPlist;
typedef struct { MObj *owner; int idx; char name[40]; } MAttrRef;

typedef struct { int kind; int ref; void *p; int file; } MId;
static MId ids[MAXID];
static MFile files[MAXFILES];
static int h5m_inited;

#define HID_BASE 0x0100000000000000LL
static hid_t mk_id(int kind, void *p, int file) {
    for (int i = 1; i < MAXID; i++) if (ids[i].kind == K_FREE) { ids[i].kind = kind; ids[i].ref = 1; ids[i].p = p; ids[i].file = file; return HID_BASE + i; }
    return -1;
}
static MId *get_id(hid_t h) {
    if (h < HID_BASE || h >= HID_BASE + MAXID) return 0;
    MId *e = &ids[h - HID_BASE];
    return e->kind == K_FREE ? 0 : e;
}
static MId *get_kind(hid_t h, int kind) { MId *e = get_id(h); return (e && e->kind == kind) ? e : 0; }

static void h5m_strcpy(char *d, const char *s, size_t cap) { size_t i = 0; for (; s[i] && i + 1 < cap; i++) d[i] = s[i]; d[i] = 0; }
static char *h5m_strdup(const char *s) { size_t n = strlen(s) + 1; char *r = (char *)malloc(n); memcpy(r, s, n); return r; }

/* ---------- types ---------- */
static MType *type_new(H5T_class_t cls, size_t size, H5T_sign_t sign) {
    MType *t = (MType *)malloc(sizeof(MType));
    memset(t, 0, sizeof(MType));
    t->cls = cls; t->size = size; t->sign = sign; t->cset = H5T_CSET_ASCII;
    return t;
}
static MType *type_copy(const MType *s) {
    MType *t = (MType *)malloc(sizeof(MType));
    *t = *s; t->immutable = 0;
    if (s->nmem) {
        t->mem = (MMember *)malloc(sizeof(MMember) * s->nmem);
        for (int i = 0; i < s->nmem; i++) { t->mem[i] = s->mem[i]; if (s->mem[i].type) t->mem[i].type = type_copy(s->mem[i].type); }
    }
    if (s->base) t->base = type_copy(s->base);
    return t;
}
static void type_free(MType *t) {
    if (!t) return;
    for (int i = 0; i < t->nmem; i++) type_free(t->mem[i].type);
    if (t->mem) free(t->mem);
    type_free(t->base);
    free(t);
}
static int type_equal(const MType *a, const MType *b) {
    if (a->cls != b->cls || a->size != b->size) return 0;
    switch (a->cls) {
    case H5T_INTEGER: case H5T_BITFIELD: return a->sign == b->sign || a->cls == H5T_BITFIELD;
    case H5T_FLOAT: case H5T_OPAQUE: return 1;
    case H5T_STRING: return a->vlstr == b->vlstr && a->cset == b->cset;
    case H5T_ENUM:
        if (a->nmem != b->nmem) return 0;
        for (int i = 0; i < a->nmem; i++) {
            int f = 0;
            for (int j = 0; j < b->nmem; j++) if (!strcmp(a->mem[i].name, b->mem[j].name) && a->mem[i].eval == b->mem[j].eval) f = 1;
            if (!f) return 0;
        }
        return 1;
    case H5T_COMPOUND:
        if (a->nmem != b->nmem) return 0;
        for (int i = 0; i < a->nmem; i++) {
            if (strcmp(a->mem[i].name, b->mem[i].name) || a->mem[i].offset != b->mem[i].offset) return 0;
            if (!type_equal(a->mem[i].type, b->mem[i].type)) return 0;
        }
        return 1;
    default: return 0;
    }
}

hid_t H5T_NATIVE_INT8_g = -1, H5T_NATIVE_INT16_g = -1, H5T_NATIVE_INT32_g = -1, H5T_NATIVE_INT64_g = -1;
hid_t H5T_NATIVE_UINT8_g = -1, H5T_NATIVE_UINT16_g = -1, H5T_NATIVE_UINT32_g = -1, H5T_NATIVE_UINT64_g = -1;
hid_t H5T_NATIVE_FLOAT_g = -1, H5T_NATIVE_DOUBLE_g = -1, H5T_NATIVE_OPAQUE_g = -1, H5T_C_S1_g = -1;
hid_t H5T_STD_I8LE_g = -1, H5T_STD_I16LE_g = -1, H5T_STD_I32LE_g = -1, H5T_STD_I64LE_g = -1;
hid_t H5T_STD_U8LE_g = -1, H5T_STD_U16LE_g = -1, H5T_STD_U32LE_g = -1, H5T_STD_U64LE_g = -1;
hid_t H5T_IEEE_F32LE_g = -1, H5T_IEEE_F64LE_g = -1, H5T_STD_B8LE_g = -1;
hid_t H5T_NATIVE_INT_g = -1, H5T_NATIVE_UINT_g = -1, H5T_NATIVE_LONG_g = -1, H5T_NATIVE_ULONG_g = -1, H5T_NATIVE_SCHAR_g = -1, H5T_NATIVE_UCHAR_g = -1,
      H5T_NATIVE_SHORT_g = -1, H5T_NATIVE_USHORT_g = -1, H5T_NATIVE_LLONG_g = -1, H5T_NATIVE_ULLONG_g = -1, H5T_NATIVE_HSIZE_g = -1;
hid_t H5P_CLS_ATTRIBUTE_CREATE_ID_g = -1, H5P_CLS_DATASET_CREATE_ID_g = -1, H5P_CLS_FILE_CREATE_ID_g = -1,
      H5P_CLS_GROUP_CREATE_ID_g = -1, H5P_CLS_LINK_CREATE_ID_g = -1, H5P_CLS_FILE_ACCESS_ID_g = -1, H5P_CLS_DATASET_XFER_ID_g = -1;

static hid_t predef(H5T_class_t cls, size_t size, H5T_sign_t sign) {
    MType *t = type_new(cls, size, sign); t->immutable = 1;
    return mk_id(K_TYPE, t, -1);
}
herr_t H5open(void) {
    if (h5m_inited) return 0;
    h5m_inited = 1;
    H5T_NATIVE_INT8_g = H5T_STD_I8LE_g = H5T_NATIVE_SCHAR_g = predef(H5T_INTEGER, 1, H5T_SGN_2);
    H5T_NATIVE_INT16_g = H5T_STD_I16LE_g = H5T_NATIVE_SHORT_g = predef(H5T_INTEGER, 2, H5T_SGN_2);
    H5T_NATIVE_INT32_g = H5T_STD_I32LE_g = H5T_NATIVE_INT_g = predef(H5T_INTEGER, 4, H5T_SGN_2);
    H5T_NATIVE_INT64_g = H5T_STD_I64LE_g = H5T_NATIVE_LONG_g = H5T_NATIVE_LLONG_g = predef(H5T_INTEGER, 8, H5T_SGN_2);
    H5T_NATIVE_UINT8_g = H5T_STD_U8LE_g = H5T_NATIVE_UCHAR_g = predef(H5T_INTEGER, 1, H5T_SGN_NONE);
    H5T_NATIVE_UINT16_g = H5T_STD_U16LE_g = H5T_NATIVE_USHORT_g = predef(H5T_INTEGER, 2, H5T_SGN_NONE);
    H5T_NATIVE_UINT32_g = H5T_STD_U32LE_g = H5T_NATIVE_UINT_g = predef(H5T_INTEGER, 4, H5T_SGN_NONE);
    H5T_NATIVE_UINT64_g = H5T_STD_U64LE_g = H5T_NATIVE_ULONG_g = H5T_NATIVE_ULLONG_g = H5T_NATIVE_HSIZE_g = predef(H5T_INTEGER, 8, H5T_SGN_NONE);
    H5T_NATIVE_FLOAT_g = H5T_IEEE_F32LE_g = predef(H5T_FLOAT, 4, H5T_SGN_2);
    H5T_NATIVE_DOUBLE_g = H5T_IEEE_F64LE_g = predef(H5T_FLOAT, 8, H5T_SGN_2);
    H5T_NATIVE_OPAQUE_g = predef(H5T_OPAQUE, 1, H5T_SGN_ERROR);
    H5T_STD_B8LE_g = predef(H5T_BITFIELD, 1, H5T_SGN_NONE);
    H5T_C_S1_g = predef(H5T_STRING, 1, H5T_SGN_ERROR);
    H5P_CLS_ATTRIBUTE_CREATE_ID_g = mk_id(K_PLIST, 0, -2);
    H5P_CLS_DATASET_CREATE_ID_g = mk_id(K_PLIST, 0, -2);
    H5P_CLS_FILE_CREATE_ID_g = mk_id(K_PLIST, 0, -2);
    H5P_CLS_GROUP_CREATE_ID_g = mk_id(K_PLIST, 0, -2);
    H5P_CLS_LINK_CREATE_ID_g = mk_id(K_PLIST, 0, -2);
    H5P_CLS_FILE_ACCESS_ID_g = mk_id(K_PLIST, 0, -2);
    H5P_CLS_DATASET_XFER_ID_g = mk_id(K_PLIST, 0, -2);
    return 0;
}
herr_t H5check_version(unsigned majnum, unsigned minnum, unsigned relnum) { (void)majnum; (void)minnum; (void)relnum; return 0; }

static MType *get_type(hid_t h) { H5open(); MId *e = get_kind(h, K_TYPE); return e ? (MType *)e->p : 0; }

hid_t H5Tcopy(hid_t t) {
    H5open();
    MId *e = get_id(t);
    if (!e) return -1;
    if (e->kind == K_DATASET) { MObj *o = (MObj *)e->p; return mk_id(K_TYPE, type_copy(o->type), -1); }
    if (e->kind != K_TYPE) return -1;
    return mk_id(K_TYPE, type_copy((MType *)e->p), -1);
}
hid_t H5Tcreate(H5T_class_t cls, size_t size) {
    H5open();
    if (size == 0) return -1;
    if (cls != H5T_COMPOUND && cls != H5T_OPAQUE && cls != H5T_ENUM && cls != H5T_STRING) return -1;
    MType *t = type_new(cls, size, H5T_SGN_ERROR);
    if (cls == H5T_ENUM) { t->base = type_new(H5T_INTEGER, size, H5T_SGN_2); }
    return mk_id(K_TYPE, t, -1);
}
htri_t H5Tequal(hid_t a, hid_t b) { MType *x = get_type(a), *y = get_type(b); if (!x || !y) return -1; return type_equal(x, y); }
H5T_class_t H5Tget_class(hid_t h) { MType *t = get_type(h); if (!t) return H5T_NO_CLASS; return t->cls; }
size_t H5Tget_size(hid_t h) { MType *t = get_type(h); if (!t) return 0; return t->vlstr ? sizeof(char *) : t->size; }
herr_t H5Tset_size(hid_t h, size_t size) {
    MType *t = get_type(h); if (!t || t->immutable) return -1;
    if (size == H5T_VARIABLE) { if (t->cls != H5T_STRING) return -1; t->vlstr = 1; t->size = sizeof(char *); return 0; }
    if (size == 0) return -1;
    if (t->cls == H5T_COMPOUND || t->cls == H5T_ENUM) { if (t->cls == H5T_ENUM) return -1; }
    t->vlstr = 0; t->size = size; return 0;
}
H5T_sign_t H5Tget_sign(hid_t h) { MType *t = get_type(h); if (!t || t->cls != H5T_INTEGER) return H5T_SGN_ERROR; return t->sign; }
herr_t H5Tset_sign(hid_t h, H5T_sign_t s) { MType *t = get_type(h); if (!t || t->immutable || t->cls != H5T_INTEGER) return -1; t->sign = s; return 0; }
H5T_cset_t H5Tget_cset(hid_t h) { MType *t = get_type(h); if (!t || t->cls != H5T_STRING) return H5T_CSET_ERROR; return t->cset; }
herr_t H5Tset_cset(hid_t h, H5T_cset_t c) { MType *t = get_type(h); if (!t || t->immutable || t->cls != H5T_STRING) return -1; t->cset = c; return 0; }
htri_t H5Tis_variable_str(hid_t h) { MType *t = get_type(h); if (!t) return -1; return t->cls == H5T_STRING && t->vlstr; }
hid_t H5Tenum_create(hid_t base) {
    MType *b = get_type(base); if (!b || b->cls != H5T_INTEGER) return -1;
    MType *t = type_new(H5T_ENUM, b->size, H5T_SGN_ERROR); t->base = type_copy(b);
    return mk_id(K_TYPE, t, -1);
}
static long long read_int(const void *p, size_t size, int is_signed) {
    switch (size) {
    case 1: return is_signed ? (long long)*(const int8_t *)p : (long long)*(const uint8_t *)p;
    case 2: return is_signed ? (long long)*(const int16_t *)p : (long long)*(const uint16_t *)p;
    case 4: return is_signed ? (long long)*(const int32_t *)p : (long long)*(const uint32_t *)p;
    default: return *(const long long *)p;
    }
}
static void write_int(void *p, size_t size, long long v) {
    switch (size) {
    case 1: *(uint8_t *)p = (uint8_t)v; break;
    case 2: *(uint16_t *)p = (uint16_t)v; break;
    case 4: *(uint32_t *)p = (uint32_t)v; break;
    default: *(long long *)p = v; break;
    }
}
static void add_member(MType *t, const char *name, size_t offset, MType *mt, long long ev) {
    MMember *nm = (MMember *)malloc(sizeof(MMember) * (t->nmem + 1));
    for (int i = 0; i < t->nmem; i++) nm[i] = t->mem[i];
    if (t->mem) free(t->mem);
    t->mem = nm;
    h5m_strcpy(nm[t->nmem].name, name, sizeof nm[0].name);
    nm[t->nmem].offset = offset; nm[t->nmem].type = mt; nm[t->nmem].eval = ev;
    t->nmem++;
}
herr_t H5Tenum_insert(hid_t h, const char *name, const void *value) {
    MType *t = get_type(h); if (!t || t->cls != H5T_ENUM || !name || !value) return -1;
    long long v = read_int(value, t->size, 1);
    for (int i = 0; i < t->nmem; i++) if (!strcmp(t->mem[i].name, name) || t->mem[i].eval == v) return -1;
    add_member(t, name, 0, 0, v);
    return 0;
}
herr_t H5Tenum_valueof(hid_t h, const char *name, void *value) {
    MType *t = get_type(h); if (!t || t->cls != H5T_ENUM) return -1;
    for (int i = 0; i < t->nmem; i++) if (!strcmp(t->mem[i].name, name)) { write_int(value, t->size, t->mem[i].eval); return 0; }
    return -1;
}
herr_t H5Tinsert(hid_t h, const char *name, size_t offset, hid_t mh) {
    MType *t = get_type(h), *m = get_type(mh);
    if (!t || !m || t->cls != H5T_COMPOUND || !name || t == m) return -1;
    size_t msz = m->vlstr ? sizeof(char *) : m->size;
    if (offset + msz > t->size) return -1;
    for (int i = 0; i < t->nmem; i++) {
        if (!strcmp(t->mem[i].name, name)) return -1;
        size_t os = t->mem[i].offset, oe = os + (t->mem[i].type->vlstr ? sizeof(char *) : t->mem[i].type->size);
        if (offset < oe && os < offset + msz) return -1;   /* overlap */
    }
    add_member(t, name, offset, type_copy(m), 0);
    return 0;
}
int H5Tget_nmembers(hid_t h) { MType *t = get_type(h); if (!t || (t->cls != H5T_COMPOUND && t->cls != H5T_ENUM)) return -1; return t->nmem; }
char *H5Tget_member_name(hid_t h, unsigned i) { MType *t = get_type(h); if (!t || i >= (unsigned)t->nmem) return 0; return h5m_strdup(t->mem[i].name); }
int H5Tget_member_index(hid_t h, const char *name) {
    MType *t = get_type(h); if (!t) return -1;
    for (int i = 0; i < t->nmem; i++) if (!strcmp(t->mem[i].name, name)) return i;
    return -1;
}
size_t H5Tget_member_offset(hid_t h, unsigned i) { MType *t = get_type(h); if (!t || t->cls != H5T_COMPOUND || i >= (unsigned)t->nmem) return 0; return t->mem[i].offset; }
hid_t H5Tget_member_type(hid_t h, unsigned i) { MType *t = get_type(h); if (!t || t->cls != H5T_COMPOUND || i >= (unsigned)t->nmem) return -1; return mk_id(K_TYPE, type_copy(t->mem[i].type), -1); }
H5T_class_t H5Tget_member_class(hid_t h, unsigned i) { MType *t = get_type(h); if (!t || t->cls != H5T_COMPOUND || i >= (unsigned)t->nmem) return H5T_NO_CLASS; return t->mem[i].type->cls; }
herr_t H5Tregister(H5T_pers_t pers, const char *name, hid_t src, hid_t dst, H5T_conv_t func) { (void)pers; (void)name; (void)func; return (get_type(src) && get_type(dst)) ? 0 : -1; }

/* ---------- element conversion ---------- */
static size_t tsize(const MType *t) { return t->vlstr ? sizeof(char *) : t->size; }
/* returns 0 ok, -1 no conversion path.  `to_file` selects ownership rule for vlen strings: data moving into the file is copied
   into model-owned storage (old value freed by caller); data moving out is copied into a fresh malloc block for the caller. */
static int conv_elem(const MType *st, const unsigned char *s, const MType *dt, unsigned char *d) {
    if (st->cls == H5T_STRING && dt->cls == H5T_STRING) {
        if (st->vlstr && dt->vlstr) {
            const char *p = *(const char *const *)s;
            *(char **)d = p ? h5m_strdup(p) : 0;
            return 0;
        }
        if (!st->vlstr && !dt->vlstr) { size_t n = st->size < dt->size ? st->size : dt->size; memcpy(d, s, n); if (dt->size > n) memset(d + n, 0, dt->size - n); return 0; }
        if (st->vlstr && !dt->vlstr) { const char *p = *(const char *const *)s; size_t n = p ? strlen(p) : 0; if (n > dt->size) n = dt->size; if (n) memcpy(d, p, n); if (dt->size > n) memset(d + n, 0, dt->size - n); return 0; }
        { char *r = (char *)malloc(st->size + 1); memcpy(r, s, st->size); r[st->size] = 0; *(char **)d = r; return 0; }
    }
    if ((st->cls == H5T_INTEGER || st->cls == H5T_FLOAT) && (dt->cls == H5T_INTEGER || dt->cls == H5T_FLOAT)) {
        if (st->cls == dt->cls && st->size == dt->size && (st->cls == H5T_FLOAT || st->sign == dt->sign)) { memcpy(d, s, st->size); return 0; }
        if (st->cls == H5T_FLOAT) {
            double v = st->size == 8 ? *(const double *)s : (double)*(const float *)s;
            if (dt->cls == H5T_FLOAT) { if (dt->size == 8) *(double *)d = v; else *(float *)d = (float)v; return 0; }
            /* float -> int: truncate, clamp (HDF5 hard conversion semantics) */
            int sg = dt->sign == H5T_SGN_2; unsigned bits = (unsigned)dt->size * 8;
            double hi = sg ? 9223372036854775808.0 : 18446744073709551616.0;
            if (bits < 64) hi = (double)(1ULL << (sg ? bits - 1 : bits));
            double lo = sg ? -hi : 0.0;
            long long r;
            if (v != v) r = 0;
            else if (v >= hi) r = sg ? (bits == 64 ? 0x7fffffffffffffffLL : (long long)((1ULL << (bits - 1)) - 1)) : (bits == 64 ? -1LL : (long long)((1ULL << bits) - 1));
            else if (v <= lo) r = sg ? (bits == 64 ? (long long)0x8000000000000000ULL : -(long long)(1ULL << (bits - 1))) : 0;
            else r = sg ? (long long)v : (long long)(unsigned long long)v;
            write_int(d, dt->size, r); return 0;
        }
        /* int -> ... */
        int ssg = st->sign == H5T_SGN_2;
        long long iv = read_int(s, st->size, ssg);
        if (dt->cls == H5T_FLOAT) {
            double v = (ssg || st->size < 8) ? (double)iv : (double)(unsigned long long)iv;
            if (dt->size == 8) *(double *)d = v; else *(float *)d = (float)v; return 0;
        }
        int dsg = dt->sign == H5T_SGN_2; unsigned bits = (unsigned)dt->size * 8;
        long long r = iv;
        if (ssg && !dsg) { if (iv < 0) r = 0; else if (bits < 64 && (unsigned long long)iv > ((1ULL << bits) - 1)) r = (long long)((1ULL << bits) - 1); }
        else if (!ssg && dsg) { unsigned long long u = (unsigned long long)iv; unsigned long long mx = bits == 64 ? 0x7fffffffffffffffULL : ((1ULL << (bits - 1)) - 1); if (st->size == 8 ? u > mx : (unsigned long long)iv > mx) r = (long long)mx; }
        else if (ssg && dsg) { if (bits < 64) { long long mx = (long long)((1ULL << (bits - 1)) - 1), mn = -mx - 1; if (iv > mx) r = mx; else if (iv < mn) r = mn; } }
        else { if (bits < 64) { unsigned long long u = (unsigned long long)iv, mx = (1ULL << bits) - 1; if (u > mx) r = (long long)mx; } }
        write_int(d, dt->size, r); return 0;
    }
    if (st->cls == H5T_ENUM && dt->cls == H5T_ENUM) {
        long long v = read_int(s, st->size, 1);
        for (int i = 0; i < st->nmem; i++) if (st->mem[i].eval == v) {
            for (int j = 0; j < dt->nmem; j++) if (!strcmp(st->mem[i].name, dt->mem[j].name)) { write_int(d, dt->size, dt->mem[j].eval); return 0; }
        }
        memset(d, 0xff, dt->size);   /* value not in the source enum: HDF5 writes all-ones */
        return 0;
    }
    if (st->cls == H5T_BITFIELD && dt->cls == H5T_ENUM && st->size == 1 && dt->size == 1) { d[0] = s[0] != 0; return 0; }   /* nix's registered bitfield2bool */
    if ((st->cls == H5T_OPAQUE && dt->cls == H5T_OPAQUE) || (st->cls == H5T_BITFIELD && dt->cls == H5T_BITFIELD)) { if (st->size != dt->size) return -1; memcpy(d, s, st->size); return 0; }
    if (st->cls == H5T_COMPOUND && dt->cls == H5T_COMPOUND) {
        /* members of the destination are filled from same-named source members; others keep their value */
        for (int j = 0; j < dt->nmem; j++) {
            for (int i = 0; i < st->nmem; i++) if (!strcmp(st->mem[i].name, dt->mem[j].name)) {
                if (conv_elem(st->mem[i].type, s + st->mem[i].offset, dt->mem[j].type, d + dt->mem[j].offset) < 0) return -1;
            }
        }
        return 0;
    }
    return -1;
}
static int conv_possible(const MType *st, const MType *dt) {
    if (st->cls == H5T_STRING && dt->cls == H5T_STRING) return 1;
    if ((st->cls == H5T_INTEGER || st->cls == H5T_FLOAT) && (dt->cls == H5T_INTEGER || dt->cls == H5T_FLOAT)) return 1;
    if (st->cls == H5T_ENUM && dt->cls == H5T_ENUM) return 1;
    if (st->cls == H5T_BITFIELD && dt->cls == H5T_ENUM) return st->size == 1 && dt->size == 1;
    if ((st->cls == H5T_OPAQUE && dt->cls == H5T_OPAQUE) || (st->cls == H5T_BITFIELD && dt->cls == H5T_BITFIELD)) return st->size == dt->size;
    if (st->cls == H5T_COMPOUND && dt->cls == H5T_COMPOUND) {
        for (int j = 0; j < dt->nmem; j++) for (int i = 0; i < st->nmem; i++)
            if (!strcmp(st->mem[i].name, dt->mem[j].name) && !conv_possible(st->mem[i].type, dt->mem[j].type)) return 0;
        return 1;
    }
    return 0;
}
/* free model-owned vlen strings inside one stored element */
static void elem_release(const MType *t, unsigned char *p) {
    if (t->cls == H5T_STRING && t->vlstr) { char *s = *(char **)p; if (s) free(s); *(char **)p = 0; }
    else if (t->cls == H5T_COMPOUND) for (int i = 0; i < t->nmem; i++) elem_release(t->mem[i].type, p + t->mem[i].offset);
}
/* before a write: release only the vlen strings of the stored element that the incoming (possibly partial compound) type overwrites */
static void elem_release_for(const MType *src, const MType *dst, unsigned char *p) {
    if (dst->cls == H5T_COMPOUND && src->cls == H5T_COMPOUND) {
        for (int j = 0; j < dst->nmem; j++) for (int i = 0; i < src->nmem; i++)
            if (!strcmp(src->mem[i].name, dst->mem[j].name)) elem_release_for(src->mem[i].type, dst->mem[j].type, p + dst->mem[j].offset);
    } else elem_release(dst, p);
}
herr_t H5Tconvert(hid_t src, hid_t dst, size_t nelmts, void *buf, void *bkg, hid_t plist) {
    (void)bkg; (void)plist;
    MType *s = get_type(src), *d = get_type(dst);
    if (!s || !d || !conv_possible(s, d)) return -1;
    size_t ss = tsize(s), ds = tsize(d);
    unsigned char *b = (unsigned char *)buf;
    unsigned char tmp[64];
    if (ds > sizeof tmp) return -1;
    if (ds <= ss) for (size_t i = 0; i < nelmts; i++) { conv_elem(s, b + i * ss, d, tmp); memcpy(b + i * ds, tmp, ds); }
    else for (size_t i = nelmts; i-- > 0;) { conv_elem(s, b + i * ss, d, tmp); memcpy(b + i * ds, tmp, ds); }
    return 0;
}

/* ---------- dataspaces ---------- */
static MSpace *get_space(hid_t h) { MId *e = get_kind(h, K_SPACE); return e ? (MSpace *)e->p : 0; }
hid_t H5Screate(H5S_class_t type) {
    H5open();
    if (type != H5S_SCALAR && type != H5S_SIMPLE && type != H5S_NULL) return -1;
    MSpace *s = (MSpace *)malloc(sizeof(MSpace)); memset(s, 0, sizeof *s);
    s->scalar = 1;
    return mk_id(K_SPACE, s, -1);
}
hid_t H5Screate_simple(int rank, const hsize_t *dims, const hsize_t *maxdims) {
    H5open();
    if (rank < 0 || rank > MAXRANK || (rank > 0 && !dims)) return -1;
    MSpace *s = (MSpace *)malloc(sizeof(MSpace)); memset(s, 0, sizeof *s);
    s->rank = rank; s->scalar = rank == 0;
    for (int i = 0; i < rank; i++) {
        s->dims[i] = dims[i]; s->maxdims[i] = maxdims ? maxdims[i] : dims[i];
        if (dims[i] == H5S_UNLIMITED) { free(s); return -1; }
        if (maxdims && maxdims[i] != H5S_UNLIMITED && maxdims[i] < dims[i]) { free(s); return -1; }
        if (dims[i] == 0 && (!maxdims || maxdims[i] == 0)) { /* zero-sized fixed dimension is allowed in 1.10 */ }
    }
    return mk_id(K_SPACE, s, -1);
}
int H5Sget_simple_extent_ndims(hid_t h) { MSpace *s = get_space(h); if (!s) return -1; return s->rank; }
int H5Sget_simple_extent_dims(hid_t h, hsize_t *dims, hsize_t *maxdims) {
    MSpace *s = get_space(h); if (!s) return -1;
    for (int i = 0; i < s->rank; i++) { if (dims) dims[i] = s->dims[i]; if (maxdims) maxdims[i] = s->maxdims[i]; }
    return s->rank;
}
herr_t H5Sselect_hyperslab(hid_t h, H5S_seloper_t op, const hsize_t *start, const hsize_t *stride, const hsize_t *count, const hsize_t *block) {
    MSpace *s = get_space(h);
    if (!s || op != H5S_SELECT_SET || !start || !count || s->rank == 0) return -1;
    for (int i = 0; i < s->rank; i++) {
        if (stride && stride[i] != 1) return -1;
        if (block && block[i] != 1) return -1;
        s->start[i] = start[i]; s->count[i] = count[i];
    }
    s->has_sel = 1;
    return 0;
}
static size_t space_nsel(const MSpace *s) {
    if (s->rank == 0) return 1;
    size_t n = 1;
    for (int i = 0; i < s->rank; i++) n *= (size_t)(s->has_sel ? s->count[i] : s->dims[i]);
    return n;
}
/* selection must lie inside the extent (checked at I/O time, as libhdf5 does) */
static int space_sel_ok(const MSpace *s) {
    if (!s->has_sel) return 1;
    for (int i = 0; i < s->rank; i++) {
        if (s->count[i] == 0) continue;
        hsize_t end = s->start[i] + s->count[i];
        if (end < s->start[i]) return 0;          /* wrap-around */
        if (end > s->dims[i]) return 0;
    }
    return 1;
}

/* ---------- property lists ---------- */
static MPlist *get_plist(hid_t h) { MId *e = get_kind(h, K_PLIST); return (e && e->p) ? (MPlist *)e->p : 0; }
hid_t H5Pcreate(hid_t cls) {
    H5open();
    MId *c = get_kind(cls, K_PLIST);
    if (!c || c->file != -2) return -1;
    MPlist *p = (MPlist *)malloc(sizeof(MPlist)); memset(p, 0, sizeof *p);
    p->cls = cls; p->cset = H5T_CSET_ASCII;
    return mk_id(K_PLIST, p, -1);
}
herr_t H5Pset_chunk(hid_t h, int rank, const hsize_t *dims) {
    MPlist *p = get_plist(h);
    if (!p || p->cls != H5P_CLS_DATASET_CREATE_ID_g || rank <= 0 || rank > MAXRANK || !dims) return -1;
    for (int i = 0; i < rank; i++) { if (dims[i] == 0 || dims[i] > 0xffffffffULL) return -1; p->chunk[i] = dims[i]; }
    p->rank = rank; p->has_chunk = 1;
    return 0;
}
herr_t H5Pset_deflate(hid_t h, unsigned level) { MPlist *p = get_plist(h); if (!p || p->cls != H5P_CLS_DATASET_CREATE_ID_g || level > 9) return -1; p->deflate = 1 + (int)level; return 0; }
herr_t H5Pset_fill_time(hid_t h, H5D_fill_time_t t) {
    MPlist *p = get_plist(h);
    if (!p || p->cls != H5P_CLS_DATASET_CREATE_ID_g || (t != H5D_FILL_TIME_ALLOC && t != H5D_FILL_TIME_NEVER && t != H5D_FILL_TIME_IFSET)) return -1;
    p->fill_never = t == H5D_FILL_TIME_NEVER; return 0;
}
herr_t H5Pset_link_creation_order(hid_t h, unsigned flags) {
    MPlist *p = get_plist(h);
    if (!p || (p->cls != H5P_CLS_GROUP_CREATE_ID_g && p->cls != H5P_CLS_FILE_CREATE_ID_g)) return -1;
    if ((flags & H5P_CRT_ORDER_INDEXED) && !(flags & H5P_CRT_ORDER_TRACKED)) return -1;
    p->crt_order = flags; return 0;
}
herr_t H5Pset_char_encoding(hid_t h, H5T_cset_t c) { MPlist *p = get_plist(h); if (!p || (c != H5T_CSET_ASCII && c != H5T_CSET_UTF8)) return -1; p->cset = c; return 0; }
herr_t H5Pget_char_encoding(hid_t h, H5T_cset_t *c) { MPlist *p = get_plist(h); if (!p || !c) return -1; *c = p->cset; return 0; }

#include "h5model_obj.inc"
