// Native replay run time: the harness intrinsics answered from a recorded counterexample, so that the SAME harness source runs
// against the real nix library and the real libhdf5.  Usage:  replay_bin <entry> <inputs.txt>
//   exit 0: ran to the end, nothing failed     exit 1: a property assertion failed ("REPRODUCED ...")
//   exit 77: an assumption of the harness does not hold for these inputs (the counterexample is inconsistent)
//   abort / sanitizer report / uncaught exception: reproduced memory error or escape
#include "nixsym.h"
#include <cstdio>
#include <cstdlib>
#include <cstring>
#include <string>
#include <map>
#include <vector>
#include <dlfcn.h>
#include <sys/stat.h>
#include <time.h>
#include <unistd.h>
#include <hdf5.h>

static std::map<std::string, std::vector<std::string>> g_in;      // name -> values in order of request
static std::map<std::string, size_t> g_next;
static bool g_failed = false;

static bool next_val(const char *name, std::string &out) {
    auto it = g_in.find(name);
    size_t k = g_next[name]++;
    if (it == g_in.end() || k >= it->second.size()) return false;
    out = it->second[k]; return true;
}
static uint64_t as_u64(const char *name) {
    std::string v; if (!next_val(name, v)) return 0;
    size_t c = v.find(':'); if (c == std::string::npos) return 0;
    if (v.compare(0, 1, "f") == 0) { size_t c2 = v.rfind(':'); return strtoull(v.c_str() + c2 + 1, nullptr, 16); }
    return strtoull(v.c_str() + c + 1, nullptr, 10);
}
static uint64_t as_bits(const char *name) {
    std::string v; if (!next_val(name, v)) return 0;
    size_t c2 = v.rfind(':'); return strtoull(v.c_str() + c2 + 1, nullptr, 0);
}
extern "C" {
uint8_t  nixsym_u8(const char *n)  { return (uint8_t)as_u64(n); }
uint16_t nixsym_u16(const char *n) { return (uint16_t)as_u64(n); }
uint32_t nixsym_u32(const char *n) { return (uint32_t)as_u64(n); }
int32_t  nixsym_i32(const char *n) { return (int32_t)(uint32_t)as_u64(n); }
uint64_t nixsym_u64(const char *n) { return as_u64(n); }
int64_t  nixsym_i64(const char *n) { return (int64_t)as_u64(n); }
uint8_t  nixsym_bool(const char *n) { return (uint8_t)(as_u64(n) & 1); }
double   nixsym_f64(const char *n) { uint64_t b = as_bits(n); double d; memcpy(&d, &b, 8); return d; }
float    nixsym_f32(const char *n) { uint32_t b = (uint32_t)as_bits(n); float f; memcpy(&f, &b, 4); return f; }
void     nixsym_bytes(void *p, size_t n, const char *name) { for (size_t i = 0; i < n; i++) ((uint8_t *)p)[i] = (uint8_t)as_u64(name); }
uint32_t nixsym_choice(const char *n, uint32_t cnt) { uint32_t v = (uint32_t)as_u64(n); return cnt ? (v < cnt ? v : cnt - 1) : 0; }
void     nixsym_assume(bool c) { if (!c) { fprintf(stderr, "REPLAY: an assumption of the harness does not hold for these inputs\n"); fflush(stderr); _exit(77); } }
void     nixsym_assert(bool c, const char *msg) { if (!c) { fprintf(stderr, "REPRODUCED assertion: %s\n", msg); g_failed = true; } }
void     nixsym_reach(const char *) {}
void     nixsym_declare_reach(const char *) {}
void     nixsym_unreached(const char *msg) { fprintf(stderr, "REPRODUCED unreached: %s\n", msg); g_failed = true; }
void     nixsym_trace_u64(const char *, uint64_t) {}
void     nixsym_trace_f64(const char *, double) {}
void     nixsym_trace_str(const char *, const char *) {}
void     nixsym_finding(const char *, bool) {}
void     nixsym_print(const char *m) { fprintf(stderr, "%s\n", m); }
uint64_t nixsym_concretize_u64(const char *, uint64_t v, uint32_t) { return v; }
uint32_t nixsym_count_values(uint64_t, uint32_t mx) { return mx; }   // natively a value is just a value: dependence on an input cannot be observed in one run

// extension API of the HDF5 model, answered from the real file system / the real libhdf5
int h5m_file_exists(const char *name) { struct stat st; return stat(name, &st) == 0; }
unsigned long long h5m_file_mutations(const char *name) {      // a fingerprint of the bytes on disk: unchanged iff nothing was written
    FILE *f = fopen(name, "rb"); if (!f) return 0;
    unsigned long long h = 1469598103934665603ULL; int c; while ((c = fgetc(f)) != EOF) { h ^= (unsigned char)c; h *= 1099511628211ULL; }
    fclose(f); return h;
}
int h5m_file_is_open(const char *) { return H5Fget_obj_count((hid_t)H5F_OBJ_ALL, H5F_OBJ_FILE) > 0; }
int h5m_open_ids(const char *, int include_file_ids) { return (int)H5Fget_obj_count((hid_t)H5F_OBJ_ALL, (include_file_ids ? H5F_OBJ_FILE : 0u) | H5F_OBJ_GROUP | H5F_OBJ_DATASET | H5F_OBJ_ATTR)   /* transient datatypes belong to no file */; }
long long h5m_file_size(const char *name) { struct stat st; return stat(name, &st) == 0 ? (long long)st.st_size : -1; }
void h5m_make_raw_file(const char *name, long long size) { FILE *f = fopen(name, "wb"); if (f) { for (long long i = 0; i < size; i++) fputc('x', f); fclose(f); } }
// the process's time zone, as seconds east of UTC (POSIX TZ strings carry the opposite sign)
void vrt_set_tz(long e) { char b[64]; long a = e < 0 ? -e : e; snprintf(b, sizeof b, "VRT%c%ld:%02ld:%02ld", e >= 0 ? '-' : '+', a / 3600, a / 60 % 60, a % 60); setenv("TZ", b, 1); tzset(); }
void h5m_make_plain_file(const char *name) { hid_t f = H5Fcreate(name, H5F_ACC_TRUNC, H5P_DEFAULT, H5P_DEFAULT); if (f >= 0) H5Fclose(f); }
}

int main(int argc, char **argv) {
    if (argc < 3) { fprintf(stderr, "usage: %s <entry> <inputs.txt>\n", argv[0]); return 2; }
    FILE *f = fopen(argv[2], "r"); if (!f) { perror("inputs"); return 2; }
    char line[4096];
    while (fgets(line, sizeof line, f)) {
        char *sp = strchr(line, ' '); if (!sp) continue; *sp = 0;
        std::string key = line, val = sp + 1; while (!val.empty() && (val.back() == '\n' || val.back() == '\r')) val.pop_back();
        size_t h = key.rfind('#'); std::string name = h == std::string::npos ? key : key.substr(0, h);
        size_t idx = h == std::string::npos ? g_in[name].size() : (size_t)atoi(key.c_str() + h + 1);
        if (g_in[name].size() <= idx) g_in[name].resize(idx + 1);
        g_in[name][idx] = val;
    }
    fclose(f);
    void (*fn)() = (void (*)())dlsym(RTLD_DEFAULT, argv[1]);
    if (!fn) { fprintf(stderr, "entry %s not found\n", argv[1]); return 2; }
    fn();                                               // an uncaught C++ exception terminates the process: reproduced escape
    if (g_failed) { fprintf(stderr, "REPLAY RESULT: reproduced\n"); return 1; }
    fprintf(stderr, "REPLAY RESULT: not reproduced\n");
    return 0;
}
