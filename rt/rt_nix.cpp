// Replacements for nix functions whose bodies live in iostream / locale / boost::date_time / the file system and are
// not the subject of any property.  A function named __vrt__<mangled> replaces <mangled> at call time in the engine
// (the list actually used by a run is written to the evidence).  Each model states its contract.
#include <string>
#include <vector>
#include <ctime>
#include <cstdint>
#include <nix/base/IDimensions.hpp>
#include "h5model.h"
#include <boost/filesystem.hpp>

// boost::filesystem::exists() -> detail::status(): answered by the model's file table
namespace boost { namespace filesystem { namespace detail {
file_status status(const path &p, system::error_code *ec) {
    if (ec) ec->clear();
    return h5m_file_exists(p.c_str()) ? file_status(regular_file) : file_status(file_not_found);
}
}}}
#define VRT(mangled) __asm__("__vrt__" mangled) __attribute__((used))

namespace vrt {

// FileHDF5::fileExists is NOT replaced: its TU is built with rt/vrt_fstream.hpp force-included (std::ifstream over the model's file table)

// numToStr<unsigned long long>: decimal representation (same result as operator<< in the C locale)
std::string numToStr_y(unsigned long long n) VRT("_ZN3nix4util8numToStrIyEENSt7__cxx1112basic_stringIcSt11char_traitsIcESaIcEEET_");
std::string numToStr_y(unsigned long long n) {
    char buf[24]; int i = 23; buf[i] = 0;
    if (n == 0) buf[--i] = '0';
    while (n) { buf[--i] = (char)('0' + n % 10); n /= 10; }
    return std::string(buf + i);
}
std::string numToStr_s(std::string s) VRT("_ZN3nix4util8numToStrINSt7__cxx1112basic_stringIcSt11char_traitsIcESaIcEEEEES7_T_");
std::string numToStr_s(std::string s) { return s; }

// timeToStr/strToTime: a bijection between time_t and a 15-character "YYYYMMDDTHHMMSS"-shaped string.
// Contract kept: strToTime(timeToStr(t)) == t for 0 <= t < 10^14; the calendar arithmetic of boost is not modelled.
std::string timeToStr(time_t t) VRT("_ZN3nix4util9timeToStrB5cxx11El");
std::string timeToStr(time_t t) {
    char b[16]; unsigned long long v = (unsigned long long)t;
    for (int i = 14; i >= 0; i--) { if (i == 8) { b[i] = 'T'; continue; } b[i] = (char)('0' + v % 10); v /= 10; }
    b[15] = 0;
    return std::string(b);
}
time_t strToTime(const std::string &s) VRT("_ZN3nix4util9strToTimeERKNSt7__cxx1112basic_stringIcSt11char_traitsIcESaIcEEE");
time_t strToTime(const std::string &s) {
    unsigned long long v = 0;
    for (size_t i = 0; i < s.size(); i++) { char c = s[i]; if (c >= '0' && c <= '9') v = v * 10 + (unsigned long long)(c - '0'); }
    return (time_t)v;
}

// createId: UUID-shaped, unique per call (counter in the node field); version nibble 4, variant 10xx.
// Used only where ids are incidental; the C12 harness analyses the real createId.
static unsigned long long id_counter = 0;
std::string createId() VRT("_ZN3nix4util8createIdB5cxx11Ev");
std::string createId() {
    static const char hex[] = "0123456789abcdef";
    char b[37] = "a1b2c3d4-e5f6-4a7b-8c9d-000000000000";
    unsigned long long v = ++id_counter;
    for (int i = 35; i >= 24; i--) { b[i] = hex[v & 15]; v >>= 4; }
    return std::string(b);
}

std::string dimTypeToStr(const nix::DimensionType &d) VRT("_ZN3nix4util12dimTypeToStrB5cxx11ERKNS_13DimensionTypeE");
std::string dimTypeToStr(const nix::DimensionType &d) {
    if (d == nix::DimensionType::Sample) return "Sample";
    if (d == nix::DimensionType::Set) return "Set";
    if (d == nix::DimensionType::Range) return "Range";
    return "";   // as the original: DataFrame prints nothing
}

// OutOfBounds::make_message: message text is not a property subject
std::string make_message(const std::string &s, unsigned long long) VRT("_ZN3nix11OutOfBounds12make_messageERKNSt7__cxx1112basic_stringIcSt11char_traitsIcESaIcEEEy");
std::string make_message(const std::string &s, unsigned long long) { return s; }


// ---- SI unit grammar (boost::regex in the original): a hand-written matcher for the same regular expressions,
//      PREFIXES? UNITS POWER?  with Perl leftmost / first-alternative semantics.  The grammar itself is outside every claim
//      (C18: not applicable part); this model only lets code that *uses* units run. ----
static const char *const PFX[] = {"Y","Z","E","P","T","G","M","k","h","da","d","c","m","u","n","p","f","a","z","y",0};
static const char *const UNT[] = {"m","g","s","A","K","mol","cd","Hz","N","Pa","J","W","C","V","F","S","Wb","T","H","lm","lx","Bq","Gy","Sv","kat","l","L","Ohm","%","dB","rad",0};
static size_t starts(const std::string &s, size_t i, const char *lit) { size_t k = 0; while (lit[k]) { if (i + k >= s.size() || s[i + k] != lit[k]) return 0; k++; } return k; }
// POWER = \^[+-]?[1-9]\d*  (greedy); returns length matched at i or 0
static size_t power_at(const std::string &s, size_t i) {
    size_t j = i;
    if (j >= s.size() || s[j] != '^') return 0;
    j++;
    if (j < s.size() && (s[j] == '+' || s[j] == '-')) j++;
    if (j >= s.size() || s[j] < '1' || s[j] > '9') return 0;
    j++;
    while (j < s.size() && s[j] >= '0' && s[j] <= '9') j++;
    return j - i;
}
// full match of s against PREFIX{pfx} UNIT POWER{pow}; pfx/pow: 0 forbidden, 1 required, 2 optional
static bool full_match(const std::string &s, int pfx, int pow) {
    for (int pi = -1; pi < 20; pi++) {
        size_t pl = 0;
        if (pi < 0) { if (pfx == 1) continue; } else { if (pfx == 0) break; pl = starts(s, 0, PFX[pi]); if (!pl) continue; }
        for (int ui = 0; UNT[ui]; ui++) {
            size_t ul = starts(s, pl, UNT[ui]);
            if (!ul) continue;
            size_t rest = pl + ul;
            if (rest == s.size()) { if (pow != 1) return true; continue; }
            if (pow == 0) continue;
            // \d* is greedy but may backtrack; a full match needs the power to consume everything
            size_t w = power_at(s, rest);
            if (w && rest + w == s.size()) return true;
        }
    }
    return false;
}
// leftmost search for one alternative of a list (first alternative in list order at the leftmost position)
static bool search_alt(const std::string &s, const char *const *alts, size_t &pos, size_t &len) {
    for (size_t i = 0; i < s.size(); i++) for (int a = 0; alts[a]; a++) { size_t l = starts(s, i, alts[a]); if (l) { pos = i; len = l; return true; } }
    return false;
}
// leftmost search for PREFIXES? UNITS POWER? (backtracking order: prefix alternatives, then no prefix; power greedy)
static bool search_atomic(const std::string &s, size_t &pos, size_t &len) {
    for (size_t i = 0; i < s.size(); i++) {
        for (int pi = 0; pi <= 20; pi++) {
            size_t pl = 0;
            if (pi < 20) { pl = starts(s, i, PFX[pi]); if (!pl) continue; }
            for (int ui = 0; UNT[ui]; ui++) {
                size_t ul = starts(s, i + pl, UNT[ui]);
                if (!ul) continue;
                pos = i; len = pl + ul + power_at(s, i + pl + ul);
                return true;
            }
        }
    }
    return false;
}
bool isAtomicSIUnit(const std::string &u) VRT("_ZN3nix4util14isAtomicSIUnitERKNSt7__cxx1112basic_stringIcSt11char_traitsIcESaIcEEE");
bool isAtomicSIUnit(const std::string &u) { return full_match(u, 2, 2); }
bool isCompoundSIUnit(const std::string &u) VRT("_ZN3nix4util16isCompoundSIUnitERKNSt7__cxx1112basic_stringIcSt11char_traitsIcESaIcEEE");
bool isCompoundSIUnit(const std::string &u) {
    // (atomic (\*|/))+ atomic : split at separators, every piece a full atomic match, at least two pieces
    if (u.empty()) return false;
    size_t start = 0; int pieces = 0;
    for (size_t i = 0; i <= u.size(); i++) {
        if (i == u.size() || u[i] == '*' || u[i] == '/') {
            if (!full_match(u.substr(start, i - start), 2, 2)) return false;
            pieces++; start = i + 1;
        }
    }
    return pieces >= 2;
}
void splitUnit(const std::string &c, std::string &prefix, std::string &unit, std::string &power) VRT("_ZN3nix4util9splitUnitERKNSt7__cxx1112basic_stringIcSt11char_traitsIcESaIcEEERS6_S9_S9_");
// groups of the full match PREFIX{pfx} UNIT POWER{pow} (first success in alternative order, like regex_match's back-tracking)
static bool match_groups(const std::string &s, bool with_prefix, bool with_power, std::string &prefix, std::string &unit, std::string &power) {
    for (int pi = with_prefix ? 0 : -1; pi < (with_prefix ? 20 : 0); pi++) {
        size_t pl = 0;
        if (pi >= 0) { pl = starts(s, 0, PFX[pi]); if (!pl) continue; }
        for (int ui = 0; UNT[ui]; ui++) {
            size_t ul = starts(s, pl, UNT[ui]);
            if (!ul) continue;
            size_t rest = pl + ul;
            if (!with_power) { if (rest != s.size()) continue; }
            else { size_t w = power_at(s, rest); if (!w || rest + w != s.size()) continue; }
            prefix = s.substr(0, pl); unit = s.substr(pl, ul); power = with_power ? s.substr(rest + 1) : std::string();
            return true;
        }
    }
    return false;
}
void splitUnit(const std::string &c, std::string &prefix, std::string &unit, std::string &power) {
    // mirrors src/util/util.cpp splitUnit (after the fix that reads the match groups): prefix+unit+power, unit+power, prefix+unit, else the whole string
    if (match_groups(c, true, true, prefix, unit, power)) return;
    if (match_groups(c, false, true, prefix, unit, power)) return;
    if (match_groups(c, true, false, prefix, unit, power)) return;
    unit = c; prefix = ""; power = "";
}
namespace { void invertPower(std::string &unit) {
    std::string p, u, power; vrt::splitUnit(unit, p, u, power);
    if (power.empty()) unit = p + u + "^-1";
    else if (power[0] == '-') unit = p + u + "^" + power.substr(1);
    else unit = p + u + "^-" + power;
} }
void splitCompoundUnit(const std::string &cu, std::vector<std::string> &atomic) VRT("_ZN3nix4util17splitCompoundUnitERKNSt7__cxx1112basic_stringIcSt11char_traitsIcESaIcEEERSt6vectorIS6_SaIS6_EE");
void splitCompoundUnit(const std::string &cu, std::vector<std::string> &atomic) {
    std::string s = cu, sep, m0;
    size_t pos, len;
    for (;;) {
        bool found = search_atomic(s, pos, len);
        m0 = found ? s.substr(pos, len) : std::string();
        std::string suffix = found ? s.substr(pos + len) : std::string();
        if (!(found && suffix.length() > 0)) break;
        std::string sfx; for (char ch : suffix) if (!(ch == ' ' || ch == '\t')) sfx += ch;
        if (sep == "/") { std::string u = m0; invertPower(u); atomic.push_back(u); } else atomic.push_back(m0);
        sep = std::string(1, sfx.empty() ? ' ' : sfx[0]);
        s = sfx.empty() ? std::string() : sfx.substr(1);
    }
    if (sep == "/") { std::string u = m0; invertPower(u); atomic.push_back(u); } else atomic.push_back(m0);
}

}  // namespace vrt
