// Replacements for nix functions whose bodies live in iostream / locale / boost::date_time / the file system and are
// not the subject of any property.  A function named __vrt__<mangled> replaces <mangled> at call time in the engine
// (the list actually used by a run is written to the evidence).  Each model states its contract.
#include <string>
#include <ctime>
#include <cstdint>
#include <nix/base/IDimensions.hpp>
#include "h5model.h"
#include <boost/filesystem.hpp>

// boost::filesystem::exists() -> detail::status(): answered by the model's file table
namespace boost { namespace filesystem { namespace detail {
file_status status(const path &p, system::error_code *ec) {
    if (ec) ec->clear();
    return h5m_file_exists(p.c_str()) ? file_status(regular_file) : file_status(file_not_found);
}
}}}
#define VRT(mangled) __asm__("__vrt__" mangled) __attribute__((used))

namespace vrt {

// FileHDF5::fileExists: "is there a file of that name" — answered by the model's file table instead of ifstream
bool fileExists(const void *self, const std::string &name) VRT("_ZNK3nix4hdf58FileHDF510fileExistsERKNSt7__cxx1112basic_stringIcSt11char_traitsIcESaIcEEE");
bool fileExists(const void *, const std::string &name) { return h5m_file_exists(name.c_str()) != 0; }

// numToStr<unsigned long long>: decimal representation (same result as operator<< in the C locale)
std::string numToStr_y(unsigned long long n) VRT("_ZN3nix4util8numToStrIyEENSt7__cxx1112basic_stringIcSt11char_traitsIcESaIcEEET_");
std::string numToStr_y(unsigned long long n) {
    char buf[24]; int i = 23; buf[i] = 0;
    if (n == 0) buf[--i] = '0';
    while (n) { buf[--i] = (char)('0' + n % 10); n /= 10; }
    return std::string(buf + i);
}
std::string numToStr_s(std::string s) VRT("_ZN3nix4util8numToStrINSt7__cxx1112basic_stringIcSt11char_traitsIcESaIcEEEEES7_T_");
std::string numToStr_s(std::string s) { return s; }

// timeToStr/strToTime: a bijection between time_t and a 15-character "YYYYMMDDTHHMMSS"-shaped string.
// Contract kept: strToTime(timeToStr(t)) == t for 0 <= t < 10^14; the calendar arithmetic of boost is not modelled.
std::string timeToStr(time_t t) VRT("_ZN3nix4util9timeToStrB5cxx11El");
std::string timeToStr(time_t t) {
    char b[16]; unsigned long long v = (unsigned long long)t;
    for (int i = 14; i >= 0; i--) { if (i == 8) { b[i] = 'T'; continue; } b[i] = (char)('0' + v % 10); v /= 10; }
    b[15] = 0;
    return std::string(b);
}
time_t strToTime(const std::string &s) VRT("_ZN3nix4util9strToTimeERKNSt7__cxx1112basic_stringIcSt11char_traitsIcESaIcEEE");
time_t strToTime(const std::string &s) {
    unsigned long long v = 0;
    for (size_t i = 0; i < s.size(); i++) { char c = s[i]; if (c >= '0' && c <= '9') v = v * 10 + (unsigned long long)(c - '0'); }
    return (time_t)v;
}

// createId: UUID-shaped, unique per call (counter in the node field); version nibble 4, variant 10xx.
// Used only where ids are incidental; the C12 harness analyses the real createId.
static unsigned long long id_counter = 0;
std::string createId() VRT("_ZN3nix4util8createIdB5cxx11Ev");
std::string createId() {
    static const char hex[] = "0123456789abcdef";
    char b[37] = "a1b2c3d4-e5f6-4a7b-8c9d-000000000000";
    unsigned long long v = ++id_counter;
    for (int i = 35; i >= 24; i--) { b[i] = hex[v & 15]; v >>= 4; }
    return std::string(b);
}

std::string dimTypeToStr(const nix::DimensionType &d) VRT("_ZN3nix4util12dimTypeToStrB5cxx11ERKNS_13DimensionTypeE");
std::string dimTypeToStr(const nix::DimensionType &d) {
    if (d == nix::DimensionType::Sample) return "Sample";
    if (d == nix::DimensionType::Set) return "Set";
    if (d == nix::DimensionType::Range) return "Range";
    return "";   // as the original: DataFrame prints nothing
}

// OutOfBounds::make_message: message text is not a property subject
std::string make_message(const std::string &s, unsigned long long) VRT("_ZN3nix11OutOfBounds12make_messageERKNSt7__cxx1112basic_stringIcSt11char_traitsIcESaIcEEEy");
std::string make_message(const std::string &s, unsigned long long) { return s; }

}  // namespace vrt
