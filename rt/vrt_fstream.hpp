// Source-level stand-in for std::ifstream, force-included into the bitcode build of backend/hdf5/FileHDF5.cpp only, so that the
// REAL body of FileHDF5::fileExists (and changes to it) is executed by the engine: the stream answers from the HDF5 model's
// file table (existence, size) instead of the operating system.  Only what "does this file exist / how big is it" code needs.
#pragma once
#include <fstream>
#include <string>
extern "C" int h5m_file_exists(const char *name);
extern "C" long long h5m_file_size(const char *name);
namespace std {
class vrt_ifstream_t {
    bool ok_; long long pos_, size_;
public:
    vrt_ifstream_t() : ok_(false), pos_(0), size_(0) {}
    explicit vrt_ifstream_t(const char *n, ios_base::openmode m = ios_base::in) { open(n, m); }
    explicit vrt_ifstream_t(const std::string &n, ios_base::openmode m = ios_base::in) { open(n.c_str(), m); }
    void open(const char *n, ios_base::openmode m = ios_base::in) { ok_ = h5m_file_exists(n) != 0; size_ = ok_ ? h5m_file_size(n) : 0; pos_ = (m & ios_base::ate) ? size_ : 0; }
    bool is_open() const { return ok_; }
    bool good() const { return ok_; }
    bool fail() const { return !ok_; }
    bool bad() const { return false; }
    bool eof() const { return ok_ && pos_ >= size_; }
    bool operator!() const { return !ok_; }
    explicit operator bool() const { return ok_; }
    void close() { ok_ = false; }
    long long tellg() { return ok_ ? pos_ : -1; }
    vrt_ifstream_t &seekg(long long off, ios_base::seekdir d = ios_base::beg) { if (ok_) pos_ = d == ios_base::end ? size_ + off : d == ios_base::cur ? pos_ + off : off; return *this; }
    int peek() { return (ok_ && pos_ < size_) ? 0x89 : -1; }
    int get() { if (ok_ && pos_ < size_) { pos_++; return 0x89; } ok_ = false; return -1; }
};
}
#define ifstream vrt_ifstream_t
