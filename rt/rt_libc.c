// libc pieces as plain loops, executed by the engine (fork naturally on symbolic bytes)
#include <stddef.h>
void *malloc(size_t); void *memcpy(void *, const void *, size_t);
// ---- libc string functions as plain loops (fork naturally on symbolic bytes) ----
size_t strlen(const char *s) { size_t n = 0; while (s[n]) n++; return n; }
int strcmp(const char *a, const char *b) {
    for (;; a++, b++) { unsigned char x = *a, y = *b; if (x != y) return x < y ? -1 : 1; if (!x) return 0; }
}
int strncmp(const char *a, const char *b, size_t n) {
    for (; n; a++, b++, n--) { unsigned char x = *a, y = *b; if (x != y) return x < y ? -1 : 1; if (!x) return 0; }
    return 0;
}
char *strchr(const char *s, int c) { for (;; s++) { if (*s == (char)c) return (char *)s; if (!*s) return 0; } }
void *memchr(const void *p, int c, size_t n) { const unsigned char *s = (const unsigned char *)p; for (; n; s++, n--) if (*s == (unsigned char)c) return (void *)s; return 0; }
char *strcpy(char *d, const char *s) { char *r = d; while ((*d++ = *s++)) {} return r; }
char *strncpy(char *d, const char *s, size_t n) { size_t i = 0; for (; i < n && s[i]; i++) d[i] = s[i]; for (; i < n; i++) d[i] = 0; return d; }
char *strdup(const char *s) { size_t n = strlen(s) + 1; char *r = (char *)malloc(n); memcpy(r, s, n); return r; }
int tolower(int c) { return (c >= 'A' && c <= 'Z') ? c + 32 : c; }
int toupper(int c) { return (c >= 'a' && c <= 'z') ? c - 32 : c; }
int isblank(int c) { return c == ' ' || c == '\t'; }
int isspace(int c) { return c == ' ' || (c >= 9 && c <= 13); }
int isdigit(int c) { return c >= '0' && c <= '9'; }
long strtol(const char *s, char **end, int base) {
    while (isspace((unsigned char)*s)) s++;
    int neg = 0;
    if (*s == '-') { neg = 1; s++; } else if (*s == '+') s++;
    if (base == 0) base = 10;
    long v = 0; const char *st = s;
    for (;; s++) {
        int d;
        if (*s >= '0' && *s <= '9') d = *s - '0'; else if (*s >= 'a' && *s <= 'z') d = *s - 'a' + 10; else if (*s >= 'A' && *s <= 'Z') d = *s - 'A' + 10; else break;
        if (d >= base) break;
        v = v * base + d;
    }
    if (end) *end = (char *)(s == st ? st : s);
    return neg ? -v : v;
}

/* ---- the process's time zone -------------------------------------------------------------------------------------
 * Environment of the code under analysis: "which zone am I in" is an input the harness sets (vrt_set_tz, seconds east
 * of UTC; another process or machine = another value).  localtime/mktime follow it, gmtime/timegm do not. */
#include <time.h>
long vrt_tz_east = 0;
void vrt_set_tz(long seconds_east) { vrt_tz_east = seconds_east; }
static long long vrt_days_from_civil(long long y, unsigned m, unsigned d) {
    y -= m <= 2;
    long long era = (y >= 0 ? y : y - 399) / 400;
    unsigned yoe = (unsigned)(y - era * 400);
    unsigned doy = (153 * (m + (m > 2 ? -3 : 9)) + 2) / 5 + d - 1;
    unsigned doe = yoe * 365 + yoe / 4 - yoe / 100 + doy;
    return era * 146097 + (long long)doe - 719468;
}
struct tm *gmtime_r(const time_t *t, struct tm *r) {
    long long s = (long long)*t, days = s / 86400, rem = s % 86400;
    if (rem < 0) { rem += 86400; days -= 1; }
    long long z = days + 719468, era = (z >= 0 ? z : z - 146096) / 146097;
    unsigned doe = (unsigned)(z - era * 146097);
    unsigned yoe = (doe - doe / 1460 + doe / 36524 - doe / 146096) / 365;
    long long y = (long long)yoe + era * 400;
    unsigned doy = doe - (365 * yoe + yoe / 4 - yoe / 100);
    unsigned mp = (5 * doy + 2) / 153;
    unsigned d = doy - (153 * mp + 2) / 5 + 1;
    unsigned m = mp < 10 ? mp + 3 : mp - 9;
    y += m <= 2;
    r->tm_sec = (int)(rem % 60); r->tm_min = (int)(rem / 60 % 60); r->tm_hour = (int)(rem / 3600);
    r->tm_mday = (int)d; r->tm_mon = (int)m - 1; r->tm_year = (int)(y - 1900);
    long long wd = (days + 4) % 7; r->tm_wday = (int)(wd < 0 ? wd + 7 : wd);
    r->tm_yday = (int)(days - vrt_days_from_civil(y, 1, 1));
    r->tm_isdst = 0; r->tm_gmtoff = 0; r->tm_zone = "UTC";
    return r;
}
time_t timegm(struct tm *tm) {
    long long y = (long long)tm->tm_year + 1900 + tm->tm_mon / 12; int mon = tm->tm_mon % 12; if (mon < 0) { mon += 12; y -= 1; }
    long long days = vrt_days_from_civil(y, (unsigned)mon + 1, 1) + (tm->tm_mday - 1);
    return (time_t)(days * 86400 + (long long)tm->tm_hour * 3600 + (long long)tm->tm_min * 60 + tm->tm_sec);
}
struct tm *localtime_r(const time_t *t, struct tm *r) { time_t u = *t + vrt_tz_east; gmtime_r(&u, r); r->tm_gmtoff = vrt_tz_east; r->tm_zone = "VRT"; return r; }
time_t mktime(struct tm *tm) { time_t u = timegm(tm) - vrt_tz_east; struct tm n; localtime_r(&u, &n); *tm = n; return u; }
static struct tm vrt_tm_buf;
struct tm *gmtime(const time_t *t) { return gmtime_r(t, &vrt_tm_buf); }
struct tm *localtime(const time_t *t) { return localtime_r(t, &vrt_tm_buf); }
