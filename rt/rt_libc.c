// libc pieces as plain loops, executed by the engine (fork naturally on symbolic bytes)
#include <stddef.h>
void *malloc(size_t); void *memcpy(void *, const void *, size_t);
// ---- libc string functions as plain loops (fork naturally on symbolic bytes) ----
size_t strlen(const char *s) { size_t n = 0; while (s[n]) n++; return n; }
int strcmp(const char *a, const char *b) {
    for (;; a++, b++) { unsigned char x = *a, y = *b; if (x != y) return x < y ? -1 : 1; if (!x) return 0; }
}
int strncmp(const char *a, const char *b, size_t n) {
    for (; n; a++, b++, n--) { unsigned char x = *a, y = *b; if (x != y) return x < y ? -1 : 1; if (!x) return 0; }
    return 0;
}
char *strchr(const char *s, int c) { for (;; s++) { if (*s == (char)c) return (char *)s; if (!*s) return 0; } }
void *memchr(const void *p, int c, size_t n) { const unsigned char *s = (const unsigned char *)p; for (; n; s++, n--) if (*s == (unsigned char)c) return (void *)s; return 0; }
char *strcpy(char *d, const char *s) { char *r = d; while ((*d++ = *s++)) {} return r; }
char *strncpy(char *d, const char *s, size_t n) { size_t i = 0; for (; i < n && s[i]; i++) d[i] = s[i]; for (; i < n; i++) d[i] = 0; return d; }
char *strdup(const char *s) { size_t n = strlen(s) + 1; char *r = (char *)malloc(n); memcpy(r, s, n); return r; }
int tolower(int c) { return (c >= 'A' && c <= 'Z') ? c + 32 : c; }
int toupper(int c) { return (c >= 'a' && c <= 'z') ? c - 32 : c; }
int isblank(int c) { return c == ' ' || c == '\t'; }
int isspace(int c) { return c == ' ' || (c >= 9 && c <= 13); }
int isdigit(int c) { return c >= '0' && c <= '9'; }
long strtol(const char *s, char **end, int base) {
    while (isspace((unsigned char)*s)) s++;
    int neg = 0;
    if (*s == '-') { neg = 1; s++; } else if (*s == '+') s++;
    if (base == 0) base = 10;
    long v = 0; const char *st = s;
    for (;; s++) {
        int d;
        if (*s >= '0' && *s <= '9') d = *s - '0'; else if (*s >= 'a' && *s <= 'z') d = *s - 'a' + 10; else if (*s >= 'A' && *s <= 'Z') d = *s - 'A' + 10; else break;
        if (d >= base) break;
        v = v * base + d;
    }
    if (end) *end = (char *)(s == st ? st : s);
    return neg ? -v : v;
}
