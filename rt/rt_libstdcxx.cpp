// Run-time support compiled to bitcode and linked into every analysed module: the parts of
// libstdc++.so / libc that nix code reaches and that have no IR of their own.
// Everything here is ordinary C++ executed by the engine like the code under analysis.
#include <string>
#include <stdexcept>
#include <typeinfo>
#include <new>
#include <functional>
#include <memory>
#include <list>
#include <cstring>
#include <cstdlib>
#include <cstdarg>
#include <bits/stl_tree.h>
#include <bits/hashtable_policy.h>

// ---- std::string: real libstdc++ code, instantiated here ----
template class std::__cxx11::basic_string<char>;
template class std::allocator<char>;

// ---- exceptions that live in libstdc++.so ----
namespace std {
__cow_string::__cow_string() : _M_p(nullptr) {}
__cow_string::__cow_string(const std::string &s) { char *p = (char *)malloc(s.size() + 1); memcpy(p, s.data(), s.size()); p[s.size()] = 0; _M_p = p; }
__cow_string::__cow_string(const char *s, size_t n) { char *p = (char *)malloc(n + 1); memcpy(p, s, n); p[n] = 0; _M_p = p; }
__cow_string::__cow_string(const __cow_string &o) noexcept { if (o._M_p) { size_t n = strlen(o._M_p); char *p = (char *)malloc(n + 1); memcpy(p, o._M_p, n + 1); _M_p = p; } else _M_p = nullptr; }
__cow_string &__cow_string::operator=(const __cow_string &o) noexcept {
    if (this != &o) { free((void *)_M_p); _M_p = nullptr; if (o._M_p) { size_t n = strlen(o._M_p); char *p = (char *)malloc(n + 1); memcpy(p, o._M_p, n + 1); _M_p = p; } }
    return *this;
}
__cow_string::~__cow_string() { free((void *)_M_p); }
__cow_string::__cow_string(__cow_string &&o) noexcept : _M_p(o._M_p) { o._M_p = nullptr; }
__cow_string &__cow_string::operator=(__cow_string &&o) noexcept { const char *t = _M_p; _M_p = o._M_p; o._M_p = t; return *this; }

exception::~exception() noexcept {}
const char *exception::what() const noexcept { return "std::exception"; }
bad_exception::~bad_exception() noexcept {}
const char *bad_exception::what() const noexcept { return "std::bad_exception"; }
bad_alloc::~bad_alloc() noexcept {}
const char *bad_alloc::what() const noexcept { return "std::bad_alloc"; }
bad_array_new_length::~bad_array_new_length() noexcept {}
const char *bad_array_new_length::what() const noexcept { return "std::bad_array_new_length"; }
bad_cast::~bad_cast() noexcept {}
const char *bad_cast::what() const noexcept { return "std::bad_cast"; }
bad_typeid::~bad_typeid() noexcept {}
const char *bad_typeid::what() const noexcept { return "std::bad_typeid"; }
bad_function_call::~bad_function_call() noexcept {}
const char *bad_function_call::what() const noexcept { return "bad_function_call"; }
bad_weak_ptr::~bad_weak_ptr() noexcept {}
const char *bad_weak_ptr::what() const noexcept { return "bad_weak_ptr"; }

logic_error::logic_error(const string &s) : _M_msg(s) {}
logic_error::logic_error(const char *s) : _M_msg(s, strlen(s)) {}
logic_error::logic_error(const logic_error &o) noexcept : exception(o), _M_msg(o._M_msg) {}
logic_error &logic_error::operator=(const logic_error &o) noexcept { _M_msg = o._M_msg; return *this; }
logic_error::~logic_error() noexcept {}
const char *logic_error::what() const noexcept { return _M_msg._M_p; }
domain_error::domain_error(const string &s) : logic_error(s) {}
domain_error::domain_error(const char *s) : logic_error(s) {}
domain_error::~domain_error() noexcept {}
invalid_argument::invalid_argument(const string &s) : logic_error(s) {}
invalid_argument::invalid_argument(const char *s) : logic_error(s) {}
invalid_argument::~invalid_argument() noexcept {}
length_error::length_error(const string &s) : logic_error(s) {}
length_error::length_error(const char *s) : logic_error(s) {}
length_error::~length_error() noexcept {}
out_of_range::out_of_range(const string &s) : logic_error(s) {}
out_of_range::out_of_range(const char *s) : logic_error(s) {}
out_of_range::~out_of_range() noexcept {}
runtime_error::runtime_error(const string &s) : _M_msg(s) {}
runtime_error::runtime_error(const char *s) : _M_msg(s, strlen(s)) {}
runtime_error::runtime_error(const runtime_error &o) noexcept : exception(o), _M_msg(o._M_msg) {}
runtime_error &runtime_error::operator=(const runtime_error &o) noexcept { _M_msg = o._M_msg; return *this; }
runtime_error::~runtime_error() noexcept {}
const char *runtime_error::what() const noexcept { return _M_msg._M_p; }
range_error::range_error(const string &s) : runtime_error(s) {}
range_error::range_error(const char *s) : runtime_error(s) {}
range_error::~range_error() noexcept {}
overflow_error::overflow_error(const string &s) : runtime_error(s) {}
overflow_error::overflow_error(const char *s) : runtime_error(s) {}
overflow_error::~overflow_error() noexcept {}
underflow_error::underflow_error(const string &s) : runtime_error(s) {}
underflow_error::underflow_error(const char *s) : runtime_error(s) {}
underflow_error::~underflow_error() noexcept {}

void __throw_bad_alloc() { throw bad_alloc(); }
void __throw_bad_array_new_length() { throw bad_array_new_length(); }
void __throw_bad_cast() { throw bad_cast(); }
void __throw_bad_typeid() { throw bad_typeid(); }
void __throw_bad_function_call() { throw bad_function_call(); }
void __throw_logic_error(const char *s) { throw logic_error(s); }
void __throw_domain_error(const char *s) { throw domain_error(s); }
void __throw_invalid_argument(const char *s) { throw invalid_argument(s); }
void __throw_length_error(const char *s) { throw length_error(s); }
void __throw_out_of_range(const char *s) { throw out_of_range(s); }
void __throw_out_of_range_fmt(const char *s, ...) { throw out_of_range(s); }
void __throw_runtime_error(const char *s) { throw runtime_error(s); }
void __throw_range_error(const char *s) { throw range_error(s); }
void __throw_overflow_error(const char *s) { throw overflow_error(s); }
void __throw_underflow_error(const char *s) { throw underflow_error(s); }
void __throw_system_error(int) { throw runtime_error("system_error"); }

// ---- std::list node hooks ----
namespace __detail {
void _List_node_base::_M_hook(_List_node_base *const pos) noexcept {
    this->_M_next = pos; this->_M_prev = pos->_M_prev; pos->_M_prev->_M_next = this; pos->_M_prev = this;
}
void _List_node_base::_M_unhook() noexcept {
    _List_node_base *const n = this->_M_next, *const p = this->_M_prev; p->_M_next = n; n->_M_prev = p;
}
void _List_node_base::_M_transfer(_List_node_base *const first, _List_node_base *const last) noexcept {
    if (this != last) {
        last->_M_prev->_M_next = this; first->_M_prev->_M_next = last; this->_M_prev->_M_next = first;
        _List_node_base *const tmp = this->_M_prev; this->_M_prev = last->_M_prev; last->_M_prev = first->_M_prev; first->_M_prev = tmp;
    }
}
void _List_node_base::swap(_List_node_base &x, _List_node_base &y) noexcept {
    if (x._M_next != &x) {
        if (y._M_next != &y) { std::swap(x._M_next, y._M_next); std::swap(x._M_prev, y._M_prev); x._M_next->_M_prev = x._M_prev->_M_next = &x; y._M_next->_M_prev = y._M_prev->_M_next = &y; }
        else { y._M_next = x._M_next; y._M_prev = x._M_prev; y._M_next->_M_prev = y._M_prev->_M_next = &y; x._M_next = x._M_prev = &x; }
    } else if (y._M_next != &y) { x._M_next = y._M_next; x._M_prev = y._M_prev; x._M_next->_M_prev = x._M_prev->_M_next = &x; y._M_next = y._M_prev = &y; }
}
void _List_node_base::_M_reverse() noexcept { _List_node_base *t = this; do { std::swap(t->_M_next, t->_M_prev); t = t->_M_prev; } while (t != this); }
}  // namespace __detail

// ---- red-black tree support: same node/header layout, plain (unbalanced) BST — observationally
//      equivalent for std::map / std::set (ordering, iteration, find, erase) ----
static _Rb_tree_node_base *rt_min(_Rb_tree_node_base *x) { while (x->_M_left) x = x->_M_left; return x; }
static _Rb_tree_node_base *rt_max(_Rb_tree_node_base *x) { while (x->_M_right) x = x->_M_right; return x; }
_Rb_tree_node_base *_Rb_tree_increment(_Rb_tree_node_base *x) throw() {
    if (x->_M_right) { x = x->_M_right; while (x->_M_left) x = x->_M_left; }
    else { _Rb_tree_node_base *y = x->_M_parent; while (x == y->_M_right) { x = y; y = y->_M_parent; } if (x->_M_right != y) x = y; }
    return x;
}
const _Rb_tree_node_base *_Rb_tree_increment(const _Rb_tree_node_base *x) throw() { return _Rb_tree_increment(const_cast<_Rb_tree_node_base *>(x)); }
_Rb_tree_node_base *_Rb_tree_decrement(_Rb_tree_node_base *x) throw() {
    if (x->_M_color == _S_red && x->_M_parent->_M_parent == x) x = x->_M_right;   // header
    else if (x->_M_left) { _Rb_tree_node_base *y = x->_M_left; while (y->_M_right) y = y->_M_right; x = y; }
    else { _Rb_tree_node_base *y = x->_M_parent; while (x == y->_M_left) { x = y; y = y->_M_parent; } x = y; }
    return x;
}
const _Rb_tree_node_base *_Rb_tree_decrement(const _Rb_tree_node_base *x) throw() { return _Rb_tree_decrement(const_cast<_Rb_tree_node_base *>(x)); }
void _Rb_tree_insert_and_rebalance(const bool insert_left, _Rb_tree_node_base *x, _Rb_tree_node_base *p, _Rb_tree_node_base &header) throw() {
    x->_M_parent = p; x->_M_left = 0; x->_M_right = 0; x->_M_color = _S_black;   // all real nodes black; only the header is red
    if (insert_left) {
        p->_M_left = x;   // also makes leftmost = x when p == &header
        if (p == &header) { header._M_parent = x; header._M_right = x; }
        else if (p == header._M_left) header._M_left = x;
    } else {
        p->_M_right = x;
        if (p == header._M_right) header._M_right = x;
    }
}
_Rb_tree_node_base *_Rb_tree_rebalance_for_erase(_Rb_tree_node_base *const z, _Rb_tree_node_base &header) throw() {
    _Rb_tree_node_base *&root = header._M_parent, *&leftmost = header._M_left, *&rightmost = header._M_right;
    _Rb_tree_node_base *y = z, *x = 0;
    if (y->_M_left == 0) x = y->_M_right;
    else if (y->_M_right == 0) x = y->_M_left;
    else { y = y->_M_right; while (y->_M_left) y = y->_M_left; x = y->_M_right; }
    if (y != z) {   // z has two children: y (successor) takes z's place
        z->_M_left->_M_parent = y; y->_M_left = z->_M_left;
        if (y != z->_M_right) {
            if (x) x->_M_parent = y->_M_parent;
            y->_M_parent->_M_left = x;
            y->_M_right = z->_M_right; z->_M_right->_M_parent = y;
        }
        if (root == z) root = y; else if (z->_M_parent->_M_left == z) z->_M_parent->_M_left = y; else z->_M_parent->_M_right = y;
        y->_M_parent = z->_M_parent;
    } else {
        if (x) x->_M_parent = y->_M_parent;
        if (root == z) root = x; else if (z->_M_parent->_M_left == z) z->_M_parent->_M_left = x; else z->_M_parent->_M_right = x;
        if (leftmost == z) { if (z->_M_right == 0) leftmost = z->_M_parent; else leftmost = rt_min(x); }
        if (rightmost == z) { if (z->_M_left == 0) rightmost = z->_M_parent; else rightmost = rt_max(x); }
    }
    return z;
}

// ---- hashing / unordered containers ----
size_t _Hash_bytes(const void *ptr, size_t len, size_t seed) {
    const unsigned char *p = (const unsigned char *)ptr; size_t h = seed ^ 0xcbf29ce484222325ULL;
    for (size_t i = 0; i < len; i++) { h ^= p[i]; h *= 0x100000001b3ULL; }
    return h;
}
namespace __detail {
size_t _Prime_rehash_policy::_M_next_bkt(size_t n) const {
    static const size_t primes[] = {2, 5, 11, 23, 47, 97, 199, 409, 823, 1741, 3469, 6949, 14033, 28411, 57557, 116731, 236897};
    size_t r = primes[16];
    for (size_t p : primes) if (p >= n) { r = p; break; }
    _M_next_resize = (size_t)((double)r * (double)_M_max_load_factor);
    return r;
}
std::pair<bool, size_t> _Prime_rehash_policy::_M_need_rehash(size_t n_bkt, size_t n_elt, size_t n_ins) const {
    if (n_elt + n_ins > _M_next_resize) {
        double min_bkts = ((double)(n_elt + n_ins)) / (double)_M_max_load_factor;
        if (min_bkts >= (double)n_bkt) return std::make_pair(true, _M_next_bkt((size_t)min_bkts + 1 > n_bkt * 2 ? (size_t)min_bkts + 1 : n_bkt * 2));
        _M_next_resize = (size_t)((double)n_bkt * (double)_M_max_load_factor);
    }
    return std::make_pair(false, (size_t)0);
}
}  // namespace __detail
}  // namespace std

// ---- std::ctype<char> in the classic "C" locale: std::use_facet<std::ctype<char>>(loc) is answered by the engine with the address of
// this object.  Only the virtual interface is provided (Itanium vtable layout of std::ctype<char>: D1, D0, do_toupper(char),
// do_toupper(char*, const char*), do_tolower(char), do_tolower(char*, const char*), do_widen(char), do_widen(range), do_narrow(char, char),
// do_narrow(range)); enough for std::toupper/tolower(c, loc) and boost::algorithm::iequals / to_lower / to_upper.
extern "C" {
static char vrt_ct_toupper(void *, char c) { return (c >= 'a' && c <= 'z') ? (char)(c - 32) : c; }
static const char *vrt_ct_toupper_r(void *, char *lo, const char *hi) { for (; lo < hi; ++lo) *lo = vrt_ct_toupper(0, *lo); return hi; }
static char vrt_ct_tolower(void *, char c) { return (c >= 'A' && c <= 'Z') ? (char)(c + 32) : c; }
static const char *vrt_ct_tolower_r(void *, char *lo, const char *hi) { for (; lo < hi; ++lo) *lo = vrt_ct_tolower(0, *lo); return hi; }
static char vrt_ct_widen(void *, char c) { return c; }
static const char *vrt_ct_widen_r(void *, const char *lo, const char *hi, char *to) { for (; lo < hi; ++lo, ++to) *to = *lo; return hi; }
static char vrt_ct_narrow(void *, char c, char) { return c; }
static const char *vrt_ct_narrow_r(void *, const char *lo, const char *hi, char, char *to) { for (; lo < hi; ++lo, ++to) *to = *lo; return hi; }
static void vrt_ct_dtor(void *) {}
__attribute__((used)) void *vrt_ctype_vtable[12] = {0, 0, (void *)vrt_ct_dtor, (void *)vrt_ct_dtor, (void *)vrt_ct_toupper, (void *)vrt_ct_toupper_r, (void *)vrt_ct_tolower, (void *)vrt_ct_tolower_r,
                              (void *)vrt_ct_widen, (void *)vrt_ct_widen_r, (void *)vrt_ct_narrow, (void *)vrt_ct_narrow_r};
struct VrtFakeCtype { void **vptr; unsigned char rest[1024]; };
__attribute__((used)) VrtFakeCtype vrt_fake_ctype = { &vrt_ctype_vtable[2], {0} };
}
