#!/usr/bin/env python3
"""Native replay of a counterexample: the harness that produced it is compiled with g++ against an ASan/UBSan build of the
CURRENT /repo tree and the real libhdf5, the recorded inputs are fed to the harness intrinsics, and the outcome is reported.

  replay.py <replay.json>      exit 0: reproduced, exit 3: not reproduced, exit 4: replay not possible (build problem / inconsistent inputs)
"""
import sys, os, json, subprocess, hashlib, glob, shutil, tempfile

VERIF = os.path.dirname(os.path.abspath(__file__))
REPO = os.environ.get("VERIF_REPO", "/repo")
CACHE = os.path.join(VERIF, ".cache", "native")
SAN = "-fsanitize=address,undefined -fno-sanitize-recover=undefined -fno-omit-frame-pointer"


def sh(cmd, **kw):
    return subprocess.run(cmd, stdout=subprocess.PIPE, stderr=subprocess.STDOUT, text=True, **kw)


def tree_key():
    h = hashlib.sha256()
    for pat in ("src/**/*.cpp", "include/**/*.hpp", "backend/**/*.cpp", "backend/**/*.hpp", "CMakeLists.txt"):
        for p in sorted(glob.glob(os.path.join(REPO, pat), recursive=True)):
            h.update(p.encode()); h.update(open(p, "rb").read())
    return h.hexdigest()[:20]


def native_lib():
    """ASan+UBSan build of the library from the current tree (cached per tree content)."""
    d = os.path.join(CACHE, tree_key())
    lib = os.path.join(d, "libnixio.so")
    if os.path.exists(lib):
        return d, None
    os.makedirs(d, exist_ok=True)
    for old in sorted(glob.glob(CACHE + "/*"), key=os.path.getmtime)[:-3]:
        shutil.rmtree(old, ignore_errors=True)
    r = sh(["cmake", "-G", "Ninja", "-S", REPO, "-B", d, "-DCMAKE_BUILD_TYPE=RelWithDebInfo", "-DCMAKE_CXX_FLAGS=-Wno-error " + SAN])
    if r.returncode != 0:
        return None, r.stdout[-2000:]
    r = sh(["cmake", "--build", d, "--target", "nixio", "-j", str(os.cpu_count() or 8)])
    if r.returncode != 0 or not os.path.exists(lib):
        return None, r.stdout[-2000:]
    return d, None


def replay(path, verbose=True):
    rp = json.load(open(path))
    f = rp["failure"]
    libdir, err = native_lib()
    if not libdir:
        return 4, "native build failed: " + (err or "")
    work = tempfile.mkdtemp(prefix="nixreplay.")
    try:
        exe = os.path.join(work, "replay_bin")
        cmd = ["g++", "-std=c++11", "-w", "-g", "-O0"] + SAN.split() + list(rp.get("defines", [])) + [
            "-I" + REPO + "/include", "-I" + libdir + "/include", "-I" + REPO + "/backend", "-I/usr/include/hdf5/serial",
            "-I" + VERIF + "/harness", "-I" + VERIF + "/h5model",
            os.path.join(VERIF, "harness", rp["harness"]), os.path.join(VERIF, "rt", "replay_rt.cpp"), "-o", exe,
            "-rdynamic", "-L" + libdir, "-lnixio", "-L/usr/lib/x86_64-linux-gnu/hdf5/serial", "-lhdf5", "-ldl", "-Wl,-rpath," + libdir]
        r = sh(cmd)
        if r.returncode != 0:
            return 4, "harness does not build natively: " + r.stdout[-1500:]
        inp = os.path.join(work, "inputs.txt")
        with open(inp, "w") as o:
            for k, v in f.get("inputs", {}).items():
                o.write("%s %s\n" % (k, v))
        env = dict(os.environ, ASAN_OPTIONS="detect_leaks=0:abort_on_error=0:exitcode=99", UBSAN_OPTIONS="print_stacktrace=1:exitcode=98")
        r = sh([exe, rp["entry"].split(".")[0] if rp["entry"].split(".")[0].startswith("vh_") else rp["entry"], inp], cwd=work, env=env, timeout=600)
        out = r.stdout[-3000:]
        rc = r.returncode
        if rc == 77:
            return 4, "inputs violate an assumption of the harness natively (counterexample depends on a model detail)\n" + out
        kind = f.get("kind")
        reproduced = False
        if kind == "assert":
            reproduced = rc == 1 and ("REPRODUCED assertion: " + f["msg"][:60]) in r.stdout
            if not reproduced and rc not in (0, 1):
                reproduced = True          # crashed on the way: also a failure of the real code on these inputs
        else:
            reproduced = rc != 0
        return (0 if reproduced else 3), ("exit code %d\n" % rc) + out
    finally:
        shutil.rmtree(work, ignore_errors=True)


def main(argv):
    if not argv:
        print(__doc__); return 2
    rc, out = replay(argv[0])
    print({0: "REPLAY: reproduced against the real library", 3: "REPLAY: NOT reproduced against the real library", 4: "REPLAY: not possible"}[rc])
    print(out)
    return rc


if __name__ == "__main__":
    sys.exit(main(sys.argv[1:]))
