// C06 — MultiTag retrieval returns exactly region i for position index i (real front-end + back-end on the HDF5 model)
#include "tagging.hpp"
using namespace nix;
using namespace vh;

#ifndef VH_MAXPOS
#define VH_MAXPOS 2
#endif
#ifndef VH_NLISTS
#define VH_NLISTS 6
#endif

static void run_mtag(bool feature) {
    nixsym_declare_reach("returned"); nixsym_declare_reach("out-of-bounds");
    File f = File::open("c06.h5", FileMode::Overwrite);
    Block b = f.createBlock("b", "t");
    Arr r = make_array(b, "data", "");
    size_t rank = r.ext.size();
    size_t N = 1 + nixsym_choice("npositions", VH_MAXPOS);
    // shape of the positions array: rank 1 data: N | N x 1 | N x 2;  rank D >= 2: N x (D-1) | N x D | N x (D+1)
    uint32_t cols = nixsym_choice("cols", 3);
    size_t D = rank == 1 ? (cols == 0 ? 1 : cols) : rank - 1 + cols;
    bool flat = rank == 1 && cols == 0;
    NDSize pshape = flat ? NDSize{(ndsize_t)N} : NDSize{(ndsize_t)N, (ndsize_t)D};
    bool has_extent = nixsym_choice("extents", 2) == 1;
    size_t focus = rank > 1 ? nixsym_choice("focus", (uint32_t)rank) : 0;

    // row 0: symbolic position/extent in the focus dimension, one of three regions elsewhere; other rows: fixed regions
    std::vector<double> pos(N * D), ext(N * D, 0.0);
    for (size_t i = 0; i < N; i++) for (size_t d = 0; d < D; d++) {
        double &p = pos[i * D + d], &e = ext[i * D + d];
        if (d >= rank) { p = 7.0; e = 1.0; continue; }                       // surplus column: must be ignored
        if (i == 0 && d == focus) { p = sym_pos("p"); if (has_extent) e = sym_pos("e"); continue; }
        double x0 = r.ax[d].x[0], xl = r.ax[d].x[(size_t)r.ext[d] - 1];
        uint32_t m = i == 0 ? nixsym_choice("region", 3) : (uint32_t)((i + d) % 2);
        p = m == 0 ? x0 : m == 1 ? xl : xl + 1.0;
        e = has_extent && m == 0 ? xl - x0 : 0.0;
    }
    DataArray pa = b.createDataArray("positions", "t", DataType::Double, pshape);
    pa.setData(DataType::Double, pos.data(), pshape, NDSize(pshape.size(), 0));
    MultiTag t = b.createMultiTag("mtag", "t", pa);
    if (has_extent) {
        DataArray ea = b.createDataArray("extents", "t", DataType::Double, pshape);
        ea.setData(DataType::Double, ext.data(), pshape, NDSize(pshape.size(), 0));
        t.extents(ea);
    }
    RangeMatch match = nixsym_choice("match", 2) ? RangeMatch::Inclusive : RangeMatch::Exclusive;
    LinkType lt = LinkType::Tagged;
    Feature feat;
    if (feature) { uint32_t l = nixsym_choice("link", 3); lt = l == 0 ? LinkType::Tagged : l == 1 ? LinkType::Untagged : LinkType::Indexed; feat = t.createFeature(r.a, lt); }
    else t.addReference(r.a);

    // requested index list: {0,1} {1,0} {N} {0,N} {0} {1}   (N = first index past the end; quick tier: the first four)
    static const int LISTS[6][2] = {{0, 1}, {1, 0}, {-2, -1}, {0, -2}, {0, -1}, {1, -1}};
    uint32_t li = nixsym_choice("indices", VH_NLISTS);
    std::vector<ndsize_t> indices;
    for (int k = 0; k < 2; k++) { int v = LISTS[li][k]; if (v == -1) break; indices.push_back(v == -2 ? (ndsize_t)N : (ndsize_t)v); }
    bool index_ok = true;
    for (ndsize_t i : indices) index_ok = index_ok && i < N;

    // ---- oracle ----
    std::vector<std::vector<Sel>> sel(indices.size(), std::vector<Sel>(rank));
    std::vector<uint8_t> ok(indices.size(), 1);
    bool all_ok = true, pad_wrong = false;
    for (size_t q = 0; q < indices.size(); q++) {
        size_t i = (size_t)indices[q];
        if (i >= N) continue;
        for (size_t d = 0; d < rank; d++) {
            if (feature && lt == LinkType::Untagged) { sel[q][d] = select_all(r.ext[d]); continue; }
            if (feature && lt == LinkType::Indexed) {                              // slice i along the first dimension
                if (d == 0) { sel[q][d].first = i; sel[q][d].count = 1; sel[q][d].ok = i < r.ext[0]; ok[q] = ok[q] & sel[q][d].ok; }
                else sel[q][d] = select_all(r.ext[d]);
                continue;
            }
            if (d >= D) {
                sel[q][d] = select_all(r.ext[d]);
                double x0 = r.ax[d].x[0], xl = r.ax[d].x[(size_t)r.ext[d] - 1];
                // (unlike Tag retrieval, multi-tag retrieval does not switch to Inclusive when there are no extents)
                pad_wrong = pad_wrong | (match == RangeMatch::Exclusive) | !(x0 + (xl - x0) == xl);
                continue;
            }
            double p = pos[i * D + d], e = ext[i * D + d];
            bool point = !has_extent || e == 0.0;
            sel[q][d] = select_axis(r.ax[d], r.ext[d], p, has_extent ? p + e : p, match == RangeMatch::Inclusive, point);
            ok[q] = ok[q] & sel[q][d].ok;
        }
        all_ok = all_ok & (ok[q] != 0);
    }
    nixsym_finding("C05-unspecified-dimension-padding", pad_wrong);
    bool expect = index_ok & all_ok;

    // ---- list retrieval ----
    bool threw = false;
    try {
        std::vector<ndsize_t> req = indices;
        std::vector<DataView> views = feature ? util::featureData(t, req, feat, match)
                                     : (match == RangeMatch::Exclusive ? t.taggedData(req, (ndsize_t)0) /* default mode */ : util::taggedData(t, req, r.a, match));
        nixsym_reach("returned");
        nixsym_assert(expect, "data was returned although an index is past the positions or a region is empty / reaches outside the data");
        nixsym_assert(views.size() == indices.size(), "one view per requested index");
        if (index_ok && views.size() == indices.size()) for (size_t q = 0; q < views.size(); q++) check_view(views[q], r, sel[q]);
    } catch (const std::exception &) { threw = true; }
    if (threw) { nixsym_reach("out-of-bounds"); nixsym_assert(!expect, "an error was raised although every requested region is non-empty and inside the data"); }

    // ---- single retrieval of the first requested index equals the first element of the list retrieval ----
    bool expect1 = (indices[0] < N) & (ok[0] != 0);
    threw = false;
    try {
        DataView v = feature ? util::featureData(t, indices[0], feat, match) : util::taggedData(t, indices[0], r.a, match);
        nixsym_assert(expect1, "single retrieval returned data although the region is invalid");
        if (indices[0] < N) check_view(v, r, sel[0]);
    } catch (const std::exception &) { threw = true; }
    if (threw) nixsym_assert(!expect1, "single retrieval raised an error although the region is valid");
}
extern "C" void vh_c06_tagged() { run_mtag(false); }
extern "C" void vh_c06_feature() { run_mtag(true); }
