// C10 — format-version gate.  K: FormatVersion ordering laws (all 32-bit triples).  S: File::open / FileHDF5 constructor /
// checkHeader on the HDF5 model with a symbolic header (format string, version triple, id presence), all modes, Force on/off.
#include "vh.hpp"
#include "h5model.h"
#include <nix/Version.hpp>
#include "hdf5/FileHDF5.hpp"
#include "hdf5/h5x/H5Group.hpp"
using namespace nix;

static FormatVersion sym_version(const char *n) { int a = nixsym_i32(n), b = nixsym_i32(n), c = nixsym_i32(n); return FormatVersion{a, b, c}; }
static bool lex_less(const FormatVersion &a, const FormatVersion &b) {
    if (a.x() != b.x()) return a.x() < b.x();
    if (a.y() != b.y()) return a.y() < b.y();
    return a.z() < b.z();
}

extern "C" void vh_c10_order() {
    nixsym_declare_reach("end");
    FormatVersion a = sym_version("a"), b = sym_version("b"), c = sym_version("c");
    bool eq = a.x() == b.x() && a.y() == b.y() && a.z() == b.z();
    nixsym_assert((a == b) == eq, "== is componentwise");
    nixsym_assert((a != b) == !eq, "!= is the negation of ==");
    nixsym_assert((a < b) == lex_less(a, b), "< is the lexicographic order");
    nixsym_assert((a > b) == lex_less(b, a), "> is the converse");
    nixsym_assert((a <= b) == !lex_less(b, a), "<=");
    nixsym_assert((a >= b) == !lex_less(a, b), ">=");
    nixsym_assert(((a < b) ? 1 : 0) + ((a == b) ? 1 : 0) + ((b < a) ? 1 : 0) == 1, "trichotomy, consistent with equality");
    if (a < b && b < c) nixsym_assert(a < c, "transitive");
    nixsym_assert(a.canWrite(b) == eq, "canWrite iff identical");
    nixsym_assert(a.canRead(b) == (a.x() == b.x() && a.y() >= b.y()), "canRead iff same major and file minor not newer");
    nixsym_reach("end");
}

extern "C" void vh_c10_index() {
    nixsym_declare_reach("thrown"); nixsym_declare_reach("value");
    FormatVersion a = sym_version("a");
    size_t i = nixsym_u64("i");
    try {
        int v = a[i];
        nixsym_reach("value");
        nixsym_assert(i <= 2 && v == (i == 0 ? a.x() : i == 1 ? a.y() : a.z()), "operator[] returns component i");
    } catch (const std::out_of_range &) { nixsym_reach("thrown"); nixsym_assert(i > 2, "operator[] throws only outside 0..2"); }
    uint32_t n = nixsym_choice("veclen", 5);
    std::vector<int> v(n, 7);
    bool threw = false;
    try { FormatVersion f(v); } catch (const std::runtime_error &) { threw = true; }
    nixsym_assert(threw == (n != 3), "vector constructor accepts exactly 3 elements");
}

// S: a file with a symbolic header is offered to File::open
extern "C" void vh_c10_gate() {
    nixsym_declare_reach("opened"); nixsym_declare_reach("refused");
    const char *fn = "gate.h5";
    int x = nixsym_i32("x"), y = nixsym_i32("y"), z = nixsym_i32("z");
    uint32_t fmt = nixsym_choice("format", 3);        // 0: "nix"  1: other string  2: attribute missing
    uint32_t hasver = nixsym_choice("hasversion", 2);
    uint32_t hasid = nixsym_choice("hasid", 2);
    {
        hid_t fid = H5Fcreate(fn, H5F_ACC_TRUNC, H5P_DEFAULT, H5P_DEFAULT);
        nixsym_assume(fid >= 0);
        nix::hdf5::H5Group root(H5Gopen2(fid, "/", H5P_DEFAULT));
        if (fmt == 0) root.setAttr("format", std::string("nix")); else if (fmt == 1) root.setAttr("format", std::string("nyx"));
        if (hasver) root.setAttr("version", std::vector<int>{x, y, z});
        if (hasid) root.setAttr("id", std::string("a1b2c3d4-e5f6-4a7b-8c9d-0123456789ab"));
        root.setAttr("created_at", std::string("20200101T000000"));
        root.setAttr("updated_at", std::string("20200101T000000"));
        root.openGroup("data"); root.openGroup("metadata");
        root.close();
        H5Fclose(fid);
    }
    uint32_t m = nixsym_choice("mode", 2);
    FileMode mode = m == 0 ? FileMode::ReadOnly : FileMode::ReadWrite;
    bool force = nixsym_choice("force", 2) == 1;
    FormatVersion lib = HDF5_FF_VERSION;
    bool newer_120 = x > 1 || (x == 1 && (y > 2 || (y == 2 && z >= 0)));
    bool version_ok = mode == FileMode::ReadWrite ? (x == lib.x() && y == lib.y() && z == lib.z()) : (x == lib.x() && y <= lib.y());
    bool expect_open = force || (fmt == 0 && hasver && version_ok && (!newer_120 || hasid));
    bool opened = false;
    try {
        File f = File::open(fn, mode, "hdf5", Compression::None, force ? OpenFlags::Force : OpenFlags::None);
        opened = f.isOpen();
        f.close();
    } catch (const std::exception &) { opened = false; }
    if (opened) nixsym_reach("opened"); else nixsym_reach("refused");
    nixsym_assert(opened == expect_open, "file opens exactly when the format/version gate says so (or Force)");
    // the decision does not depend on what was tried before: an attempt, refused or accepted-and-closed, leaves nothing of the file open,
    // and a forced read-write open afterwards gets through
    nixsym_assert(h5m_open_ids(fn, 1) == 0 && !h5m_file_is_open(fn), "an open attempt (refused, or accepted and closed) left an HDF5 identifier of the file open");
    bool second = false;
    try { File g = File::open(fn, FileMode::ReadWrite, "hdf5", Compression::None, OpenFlags::Force); second = g.isOpen(); g.close(); } catch (const std::exception &) { second = false; }
    nixsym_assert(second, "Force bypasses the version check whatever was attempted on the file before");
}
