// Per-entity observation: for every entity of the file (keyed by id) its own attributes/data and its ordered list of links.
#pragma once
#include "vh.hpp"
#include <map>

namespace vh {

struct EObs { std::string kind, attrs; std::vector<std::string> links; std::vector<std::string> subtree; };   // subtree: ids deleted together with this entity
typedef std::map<std::string, EObs> EMap;

#define VH_LINK(e, field, code) try { code; } catch (const std::exception &) { (e).links.push_back(std::string("EXC:") + field); }

template <class E> void e_head(EObs &eo, const E &e) { Obs o; ObsOpt opt; opt.ids = false; obs_entity_head(o, e, opt); eo.attrs += o.s; }
template <class E> void e_md(EObs &eo, const E &e) { VH_LINK(eo, "metadata", { Section m = e.metadata(); if (m) eo.links.push_back("metadata=" + m.id()); }); }
template <class E> void e_src(EObs &eo, const E &e) { VH_LINK(eo, "sources", { ndsize_t n = e.sourceCount(); for (ndsize_t i = 0; i < n; i++) eo.links.push_back("source=" + e.getSource((size_t)i).id()); }); }

inline void collect_source(EMap &m, const Source &s, std::vector<std::string> *up) {
    EObs eo; eo.kind = "Source"; e_head(eo, s); e_md(eo, s);
    std::string id = s.id();
    std::vector<std::string> sub;
    ndsize_t n = s.sourceCount();
    for (ndsize_t i = 0; i < n; i++) { Source c = s.getSource(i); eo.links.push_back("child=" + c.id()); sub.push_back(c.id()); collect_source(m, c, &sub); }
    eo.subtree = sub;
    if (up) for (auto &x : sub) up->push_back(x);
    m[id] = eo;
}
inline void collect_section(EMap &m, const Section &s, std::vector<std::string> *up) {
    EObs eo; eo.kind = "Section"; e_head(eo, s);
    { Obs o; o.ostr("repo", s.repository()); eo.attrs += o.s; }
    VH_LINK(eo, "link", { Section l = s.link(); if (l) eo.links.push_back("link=" + l.id()); });
    std::vector<std::string> sub;
    ndsize_t np = s.propertyCount();
    for (ndsize_t i = 0; i < np; i++) {
        Property p = s.getProperty(i);
        EObs po; po.kind = "Property"; { Obs o; ObsOpt opt; opt.ids = false; obs_property(o, p, opt); po.attrs = o.s; }
        eo.links.push_back("prop=" + p.id()); sub.push_back(p.id());
        m[p.id()] = po;
    }
    ndsize_t n = s.sectionCount();
    for (ndsize_t i = 0; i < n; i++) { Section c = s.getSection(i); eo.links.push_back("child=" + c.id()); sub.push_back(c.id()); collect_section(m, c, &sub); }
    eo.subtree = sub;
    if (up) for (auto &x : sub) up->push_back(x);
    m[s.id()] = eo;
}
inline void collect_feature(EMap &m, const Feature &f, EObs &owner, std::vector<std::string> &sub) {
    EObs fo; fo.kind = "Feature"; { Obs o; o.u64("link", (uint64_t)f.linkType()); fo.attrs = o.s; }
    VH_LINK(fo, "data", { DataArray d = f.data(); if (d) fo.links.push_back("data=" + d.id()); });
    owner.links.push_back("feature=" + f.id()); sub.push_back(f.id());
    m[f.id()] = fo;
}
inline void collect_block(EMap &m, const Block &b) {
    EObs bo; bo.kind = "Block"; e_head(bo, b); e_md(bo, b);
    std::vector<std::string> sub;
    ObsOpt opt; opt.ids = false;
    for (ndsize_t i = 0, n = b.dataArrayCount(); i < n; i++) {
        DataArray a = b.getDataArray(i); EObs eo; eo.kind = "DataArray"; e_head(eo, a);
        { Obs o; o.ostr("label", a.label()); o.ostr("unit", a.unit()); o.of64("origin", a.expansionOrigin()); o.u64("dtype", (uint64_t)a.dataType());
          std::vector<double> pc = a.polynomCoefficients(); o.u64("npoly", pc.size()); for (double c : pc) o.f64("c", c);
          VH_TRY(o, "data", obs_array_data(o, a, opt));
          VH_TRY(o, "dims", { ndsize_t nd = a.dimensionCount(); o.u64("ndims", nd); for (ndsize_t k = 1; k <= nd; k++) obs_dimension(o, a.getDimension(k)); });
          eo.attrs += o.s; }
        VH_LINK(eo, "dimframe", { ndsize_t nd = a.dimensionCount(); for (ndsize_t k = 1; k <= nd; k++) { Dimension dm = a.getDimension(k); if (dm.dimensionType() == DimensionType::DataFrame) eo.links.push_back("dimframe=" + dm.asDataFrameDimension().data()->id()); } });
        e_md(eo, a); e_src(eo, a);
        bo.links.push_back("array=" + a.id()); sub.push_back(a.id()); m[a.id()] = eo;
    }
    for (ndsize_t i = 0, n = b.dataFrameCount(); i < n; i++) {
        DataFrame d = b.getDataFrame(i); EObs eo; eo.kind = "DataFrame";
        { Obs o; ObsOpt o2 = opt; obs_data_frame(o, d, o2); eo.attrs = o.s; }
        bo.links.push_back("frame=" + d.id()); sub.push_back(d.id()); m[d.id()] = eo;
    }
    for (ndsize_t i = 0, n = b.tagCount(); i < n; i++) {
        Tag t = b.getTag(i); EObs eo; eo.kind = "Tag"; e_head(eo, t);
        { Obs o; for (auto &u : t.units()) o.str("unit", u); for (double x : t.position()) o.f64("p", x); for (double x : t.extent()) o.f64("e", x); eo.attrs += o.s; }
        std::vector<std::string> fsub;
        VH_LINK(eo, "refs", { ndsize_t k = t.referenceCount(); for (ndsize_t j = 0; j < k; j++) eo.links.push_back("ref=" + t.getReference((size_t)j).id()); });
        VH_LINK(eo, "features", { ndsize_t k = t.featureCount(); for (ndsize_t j = 0; j < k; j++) collect_feature(m, t.getFeature(j), eo, fsub); });
        e_md(eo, t); e_src(eo, t); eo.subtree = fsub;
        bo.links.push_back("tag=" + t.id()); sub.push_back(t.id()); for (auto &x : fsub) sub.push_back(x); m[t.id()] = eo;
    }
    for (ndsize_t i = 0, n = b.multiTagCount(); i < n; i++) {
        MultiTag t = b.getMultiTag(i); EObs eo; eo.kind = "MultiTag"; e_head(eo, t);
        { Obs o; for (auto &u : t.units()) o.str("unit", u); eo.attrs += o.s; }
        std::vector<std::string> fsub;
        VH_LINK(eo, "positions", { DataArray p = t.positions(); if (p) eo.links.push_back("positions=" + p.id()); });
        VH_LINK(eo, "extents", { DataArray p = t.extents(); if (p) eo.links.push_back("extents=" + p.id()); });
        VH_LINK(eo, "refs", { ndsize_t k = t.referenceCount(); for (ndsize_t j = 0; j < k; j++) eo.links.push_back("ref=" + t.getReference((size_t)j).id()); });
        VH_LINK(eo, "features", { ndsize_t k = t.featureCount(); for (ndsize_t j = 0; j < k; j++) collect_feature(m, t.getFeature((size_t)j), eo, fsub); });
        e_md(eo, t); e_src(eo, t); eo.subtree = fsub;
        bo.links.push_back("mtag=" + t.id()); sub.push_back(t.id()); for (auto &x : fsub) sub.push_back(x); m[t.id()] = eo;
    }
    for (ndsize_t i = 0, n = b.groupCount(); i < n; i++) {
        Group g = b.getGroup(i); EObs eo; eo.kind = "Group"; e_head(eo, g);
        VH_LINK(eo, "gda", { ndsize_t k = g.dataArrayCount(); for (ndsize_t j = 0; j < k; j++) eo.links.push_back("member=" + g.getDataArray((size_t)j).id()); });
        VH_LINK(eo, "gtag", { ndsize_t k = g.tagCount(); for (ndsize_t j = 0; j < k; j++) eo.links.push_back("member=" + g.getTag((size_t)j).id()); });
        VH_LINK(eo, "gmtag", { ndsize_t k = g.multiTagCount(); for (ndsize_t j = 0; j < k; j++) eo.links.push_back("member=" + g.getMultiTag((size_t)j).id()); });
        VH_LINK(eo, "gdf", { ndsize_t k = g.dataFrameCount(); for (ndsize_t j = 0; j < k; j++) eo.links.push_back("member=" + g.getDataFrame(j).id()); });
        e_md(eo, g); e_src(eo, g);
        bo.links.push_back("group=" + g.id()); sub.push_back(g.id()); m[g.id()] = eo;
    }
    for (ndsize_t i = 0, n = b.sourceCount(); i < n; i++) { Source s = b.getSource(i); bo.links.push_back("source=" + s.id()); sub.push_back(s.id()); collect_source(m, s, &sub); }
    bo.subtree = sub;
    m[b.id()] = bo;
}
inline EMap collect(const File &f) {
    EMap m;
    EObs fo; fo.kind = "File";
    for (ndsize_t i = 0, n = f.blockCount(); i < n; i++) { Block b = f.getBlock(i); fo.links.push_back("block=" + b.id()); collect_block(m, b); }
    for (ndsize_t i = 0, n = f.sectionCount(); i < n; i++) { Section s = f.getSection(i); fo.links.push_back("section=" + s.id()); collect_section(m, s, nullptr); }
    m["<file>"] = fo;
    return m;
}
inline std::string link_target(const std::string &l) { size_t p = l.find('='); return p == std::string::npos ? std::string() : l.substr(p + 1); }

}  // namespace vh
