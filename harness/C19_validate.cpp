// C19 — the validator accepts every rule-conforming file and flags every hard-rule breach (full stack on the HDF5 model)
// Breaches the public setters refuse are injected through the back-end interface (impl()), i.e. the file states another
// writer of the format can produce.
#include "world.hpp"
#include <nix/valid/validate.hpp>
using namespace nix;
using namespace vh;

static size_t count_id(const std::vector<valid::Message> &m, const std::string &id) { size_t n = 0; for (auto &x : m) if (x.id == id) n++; return n; }

// the conforming world file: no error at all
extern "C" void vh_c19_conforming() {
    nixsym_declare_reach("validated");
    World w; build_world(w);
    w.da2.unit("mV"); w.pos.unit("s"); w.ext.unit("s"); w.feat.unit("V"); w.da_u.unit("V"); w.b2_pos.unit("s");                 // (the builder gave blk2/pos its data-frame dimension)
    w.da_u.getDimension(1);          // set dimension appended by the builder
    w.prop2.unit("kg");
    valid::Result r = w.f.validate();
    nixsym_assert(r.getErrors().empty(), "a file conforming to every hard rule validates without errors");
    nixsym_reach("validated");
}

// one data array, its dimension descriptors and calibration attributes
extern "C" void vh_c19_array() {
    nixsym_declare_reach("validated");
    File f = File::open("c19.h5", FileMode::Overwrite);
    Block b = f.createBlock("b", "t");
    size_t rank = 1 + nixsym_choice("rank", 2);
    NDSize ext = rank == 1 ? NDSize({3}) : NDSize({3, 2});
    DataArray a = b.createDataArray("a", "t", DataType::Double, ext);
    DataFrame df = b.createDataFrame("df", "t", {{"c", "", DataType::Int64}});
    size_t ndims = rank - 1 + nixsym_choice("ndims", 3);                   // one descriptor too few / exact / one too many
    bool hard_array = ndims != rank;
    size_t hard_dim_count = 0;
    bool content_mismatch = false;
    for (size_t d = 0; d < ndims; d++) {
        size_t n = d < rank ? (size_t)ext[d] : 2;
        uint32_t kind = d < 2 ? nixsym_choice("kind", 4) : 1;              // descriptors beyond the second: plain set dimensions
        if (kind == 0) {                                                    // range: tick count and order
            size_t cnt = n - 1 + nixsym_choice("ticks", 3);
            RangeDimension rd = a.appendRangeDimension(std::vector<double>{0.0, 1.0});
            std::vector<double> t(cnt);
            bool sorted = true;
            for (size_t i = 0; i < cnt; i++) { t[i] = nixsym_f64("tick"); nixsym_assume(t[i] == t[i]); if (i) sorted = sorted & (t[i - 1] <= t[i]); }
            std::dynamic_pointer_cast<base::IRangeDimension>(rd.impl())->ticks(t);      // back-end: no order check
            if (d < rank && cnt != n) content_mismatch = true;
            if (cnt == 0 || !sorted) hard_dim_count++;                                   // no ticks / unsorted ticks: hard breach of the dimension
        } else if (kind == 1) {                                             // set: label count
            uint32_t lc = d < 2 ? nixsym_choice("labels", 3) : 1;
            size_t cnt = lc == 0 ? 0 : lc == 1 ? n : n + 1;
            std::vector<std::string> l(cnt, "x");
            if (cnt) a.appendSetDimension(l); else a.appendSetDimension();
            if (d < rank && cnt != 0 && cnt != n) content_mismatch = true;
        } else if (kind == 2) {                                             // sampled: interval sign, offset/unit
            SampledDimension sd = a.appendSampledDimension(1.0);
            double iv = nixsym_f64("interval"); nixsym_assume(iv == iv);
            std::dynamic_pointer_cast<base::ISampledDimension>(sd.impl())->samplingInterval(iv);
            uint32_t ou = nixsym_choice("offset_unit", 3);                  // 0: neither, 1: offset without unit (soft), 2: offset and unit
            if (ou >= 1) sd.offset(0.5);
            if (ou == 2) sd.unit("ms");
            if (!(iv > 0.0)) hard_dim_count++;
        } else {                                                            // data-frame: row count
            size_t rows = n + nixsym_choice("rows", 2);
            DataFrame g = b.createDataFrame(std::string("df") + (char)('0' + d), "t", {{"c", "", DataType::Int64}});
            g.rows(rows);
            a.appendDataFrameDimension(g);
            if (d < rank && rows != n) content_mismatch = true;
        }
    }
    if (!hard_array && content_mismatch) hard_array = true;
    // soft rules
    // soft rules: 0 none | 1 SI unit, coefficients and origin | 2 non-SI unit (through the back-end), coefficients only | 3 origin only
    uint32_t soft = nixsym_choice("soft", 4);
    if (soft == 1) a.unit("mV");
    if (soft == 2) a.impl()->unit("parsec");
    if (soft == 1 || soft == 2) a.polynomCoefficients({1.0, 2.0});
    if (soft == 1 || soft == 3) a.expansionOrigin(1.0);

    valid::Result r = f.validate();
    std::vector<valid::Message> errs = r.getErrors();
    size_t arr_errs = count_id(errs, a.id()), dim_errs = count_id(errs, "unknown");
    if (hard_array) nixsym_assert(arr_errs >= 1, "hard-rule breach of the data array (descriptor count / ticks / labels / rows vs. data) is not reported as an error");
    else nixsym_assert(arr_errs == 0, "error reported for a data array that satisfies every hard rule (soft-rule breaches must be warnings)");
    nixsym_assert(dim_errs >= hard_dim_count, "a dimension with unsorted or missing ticks or a non-positive sampling interval is not reported as an error");
    if (hard_dim_count == 0) nixsym_assert(dim_errs == 0, "error reported for dimension descriptors that satisfy every hard rule");
    nixsym_assert(errs.size() == arr_errs + dim_errs, "errors are attributed to the breaching entity only");
    nixsym_reach("validated");
}

// tag / multi-tag units against the units of the referenced array's dimensions; positions; feature data; property units
extern "C" void vh_c19_tags() {
    nixsym_declare_reach("validated");
    File f = File::open("c19t.h5", FileMode::Overwrite);
    Block b = f.createBlock("b", "t");
    static const char *DU[] = {"", "s", "mV"};                               // dimension units: none / s / mV
    static const char *TU[] = {"ms", "kV", "Hz", "foo"};                     // tag units: scalable to s / to mV / to neither / not SI (back-end only)
    DataArray a = b.createDataArray("a", "t", DataType::Double, NDSize({2, 2}));
    uint32_t du[2];
    for (int d = 0; d < 2; d++) { du[d] = nixsym_choice("dimunit", 3); SampledDimension sd = a.appendSampledDimension(1.0); if (du[d]) sd.unit(DU[du[d]]); }
    uint32_t nu = nixsym_choice("ntagunits", 3);
    std::vector<std::string> units; uint32_t tu[2] = {0, 0};
    for (uint32_t i = 0; i < nu; i++) { tu[i] = nixsym_choice("tagunit", 4); units.push_back(TU[tu[i]]); }
    bool multi = nixsym_choice("multi", 2) == 1;
    DataArray pos = b.createDataArray("pos", "t", DataType::Double, NDSize({1, 2}));
    pos.appendSetDimension(); pos.appendSetDimension();
    Tag t; MultiTag mt; std::string tid;
    bool invalid_unit = false, unconvertible = false;
    for (uint32_t i = 0; i < nu; i++) {
        if (tu[i] == 3) invalid_unit = true;
        // unit i applies to dimension i: convertible iff the dimension has no unit or the base units agree
        bool conv = du[i] == 0 || (du[i] == 1 && tu[i] == 0) || (du[i] == 2 && tu[i] == 1);
        if (!conv) unconvertible = true;
    }
    if (!multi) { t = b.createTag("tag", "t", {1.0, 1.0}); t.addReference(a); tid = t.id(); if (nu) t.impl()->units(units); }
    else { mt = b.createMultiTag("mtag", "t", pos); mt.addReference(a); tid = mt.id(); if (nu) mt.impl()->units(units); }
    bool no_positions = false, no_feature_data = false;
    std::string fid;
    uint32_t extra = nixsym_choice("extra", 3);
    if (extra == 1 && multi) { b.deleteDataArray("pos"); no_positions = true; }
    if (extra == 2) {
        DataArray fd = b.createDataArray("fd", "t", DataType::Double, NDSize({1})); fd.appendSetDimension();
        Feature ft = multi ? mt.createFeature(fd, LinkType::Untagged) : t.createFeature(fd, LinkType::Untagged);
        fid = ft.id(); b.deleteDataArray("fd"); no_feature_data = true;
    }
    Section s = f.createSection("s", "t");
    Property p = s.createProperty("p", Variant(1.5));                        // values without unit: soft
    valid::Result r = f.validate();
    std::vector<valid::Message> errs = r.getErrors();
    bool hard_tag = invalid_unit || unconvertible || no_positions;
    size_t tag_errs = count_id(errs, tid);
    if (hard_tag) nixsym_assert(tag_errs >= 1, "tag whose units are invalid or not convertible to the referenced dimensions' units (or multi-tag without positions) is not reported as an error");
    else nixsym_assert(tag_errs == 0, "error reported for a tag that satisfies every hard rule");
    if (no_feature_data) nixsym_assert(count_id(errs, fid) >= 1, "feature without data is not reported as an error");
    nixsym_assert(count_id(errs, p.id()) == 0 && count_id(errs, s.id()) == 0 && count_id(errs, a.id()) == 0, "soft-rule breaches and conforming entities produce no errors");
    nixsym_reach("validated");
    // the verdict follows the file's CURRENT state: the unit of the first dimension is changed and the same process validates again
    if (nu >= 1) {
        du[0] = (du[0] + 1) % 3;
        SampledDimension sd0 = a.getDimension(1).asSampledDimension();
        if (du[0]) sd0.unit(std::string(DU[du[0]])); else sd0.unit(none);
        unconvertible = false;
        for (uint32_t i = 0; i < nu; i++) if (!(du[i] == 0 || (du[i] == 1 && tu[i] == 0) || (du[i] == 2 && tu[i] == 1))) unconvertible = true;
        bool hard2 = invalid_unit || unconvertible || no_positions;
        size_t n2 = count_id(f.validate().getErrors(), tid);
        if (hard2) nixsym_assert(n2 >= 1, "after a dimension's unit changed: a tag whose units are no longer convertible is not reported (stale verdict)");
        else nixsym_assert(n2 == 0, "after a dimension's unit changed: an error is still reported for a tag that now satisfies every hard rule (stale verdict)");
    }
}
