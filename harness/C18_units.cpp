// C18 — unit scaling is exact, reciprocal and transparent to retrieval
// The unit GRAMMAR (boost::regex) is outside the claim: it is replaced by the hand-written matcher of rt/rt_nix.cpp.  Decided
// here: the arithmetic of getSIScaling / isScalable on units built from every prefix, and that retrieval applies the factor
// exactly once, to the right dimension, in the right direction.
#include "tagging.hpp"
#include <nix/util/util.hpp>
using namespace nix;
using namespace vh;

static const char *PFX[21] = {"", "y", "z", "a", "f", "p", "n", "u", "m", "c", "d", "da", "h", "k", "M", "G", "T", "P", "E", "Z", "Y"};
static const int PEXP[21] = {0, -24, -21, -18, -15, -12, -9, -6, -3, -2, -1, 1, 2, 3, 6, 9, 12, 15, 18, 21, 24};
static const char *BASE[31] = {"V", "s", "Hz", "m", "g", "A", "K", "mol", "cd", "N", "Pa", "J", "W", "C", "F", "S", "Wb", "T", "H", "lm", "lx", "Bq", "Gy", "Sv", "kat", "l", "L", "Ohm", "%", "dB", "rad"};
static const char *POW[5] = {"", "^2", "^-1", "^3", "^-3"};
static const int POWV[5] = {1, 2, -1, 3, -3};

static bool close_to(double got, double want) { double d = got - want; if (d < 0) d = -d; double m = want < 0 ? -want : want; return d <= 1e-12 * m; }
static double p10(int e) { return std::pow(10.0, (double)e); }

extern "C" void vh_c18_scaling() {
    nixsym_declare_reach("scaled");
    uint32_t ia = nixsym_choice("pa", 21), ib = nixsym_choice("pb", 21), bs = nixsym_choice("base", 31), pw = nixsym_choice("power", 5);
    std::string a = std::string(PFX[ia]) + BASE[bs] + POW[pw], b = std::string(PFX[ib]) + BASE[bs] + POW[pw], c = std::string("k") + BASE[bs] + POW[pw];
    nixsym_assert(util::isSIUnit(a) && util::isSIUnit(b), "prefix + base unit + power is an SI unit");
    nixsym_assert(util::isScalable(a, b) && util::isScalable(b, a), "units differing only by prefix are scalable, symmetrically");
    double fab = util::getSIScaling(a, b), fba = util::getSIScaling(b, a);
    nixsym_assert(close_to(fab, p10(POWV[pw] * (PEXP[ia] - PEXP[ib]))), "factor a->b = 10^(power * (exp_a - exp_b))");
    nixsym_assert(close_to(fba, p10(POWV[pw] * (PEXP[ib] - PEXP[ia]))), "factor b->a = 10^(power * (exp_b - exp_a))");
    nixsym_assert(close_to(fab * fba, 1.0), "a->b and b->a are reciprocal");
    double fbc = util::getSIScaling(b, c), fac = util::getSIScaling(a, c);
    nixsym_assert(close_to(fab * fbc, fac), "a->b->c composes to a->c");
    // asking again gives the same answers (no state carried from one question to the next)
    nixsym_assert(util::getSIScaling(a, b) == fab && util::getSIScaling(b, a) == fba, "repeated questions give the same factors");
    // other base unit / other power / non-SI: rejected
    std::string other = std::string(PFX[ib]) + BASE[(bs + 1) % 31] + POW[pw], otherp = std::string(PFX[ib]) + BASE[bs] + POW[(pw + 1) % 5];
    nixsym_assert(!util::isScalable(a, other) && !util::isScalable(a, otherp) && !util::isScalable(a, "foo") && !util::isScalable("foo", a), "different base unit, power or non-SI unit: not scalable");
    bool threw = false; try { util::getSIScaling(a, other); } catch (const std::exception &) { threw = true; }
    bool threw2 = false; try { util::getSIScaling(a, otherp); } catch (const std::exception &) { threw2 = true; }
    nixsym_assert(threw && threw2, "getSIScaling rejects units of different base unit or power");
    nixsym_reach("scaled");
}

// units of different base unit are rejected - for EVERY pair of base units (incl. those whose symbols differ only in case: s / S, l / L)
extern "C" void vh_c18_reject() {
    nixsym_declare_reach("rejected");
    uint32_t b1 = nixsym_choice("base", 31), pw = nixsym_choice("power", 5);
    static const int PF[4] = {0, 8, 13, 7};                                   // none, m, k, u
    for (uint32_t b2 = 0; b2 < 31; b2++) {
        if (b2 == b1) continue;
        for (int i = 0; i < 4; i++) {
            std::string a = std::string(PFX[PF[i]]) + BASE[b1] + POW[pw], b = std::string(PFX[PF[(i + 1) % 4]]) + BASE[b2] + POW[pw];
            if (!util::isSIUnit(a) || !util::isSIUnit(b)) continue;
            std::string pa_, ua, wa, pb_, ub, wb; util::splitUnit(a, pa_, ua, wa); util::splitUnit(b, pb_, ub, wb);
            if (ua == ub) continue;                                              // the grammar reads the two strings as the same base unit (e.g. "mm" / "m")
            nixsym_assert(!util::isScalable(a, b) && !util::isScalable(b, a), "units of different base units are not scalable");
            bool threw = false; try { util::getSIScaling(a, b); } catch (const std::exception &) { threw = true; }
            nixsym_assert(threw, "getSIScaling rejects units of different base units");
        }
    }
    nixsym_reach("rejected");
}

// retrieval with positions given in a scaled unit selects the same elements as the unscaled request
extern "C" void vh_c18_transparent() {
    nixsym_declare_reach("same");
    File f = File::open("c18.h5", FileMode::Overwrite);
    Block b = f.createBlock("b", "t");
    // 2-D array: dimension 0 sampled in ms, dimension 1 range in uV (different factors per dimension: s -> ms 1e3, mV -> uV 1e3, V -> uV 1e6)
    NDSize ext({4, 3});
    DataArray a = b.createDataArray("a", "t", DataType::Double, ext);
    std::vector<double> v(12); for (size_t i = 0; i < 12; i++) v[i] = (double)((i / 3) * 10 + i % 3);
    a.setData(DataType::Double, v.data(), ext, NDSize({0, 0}));
    a.appendSampledDimension(250.0, "time", "ms", 0.0);                       // 0, 250, 500, 750 ms
    a.appendRangeDimension({1e6, 2e6, 4e6}, "x", "uV");
    // binary fractions / integers only: multiplication by 1e3 and 1e6 is exact for them ("values chosen so that rescaling is exact")
    static const double P0[] = {-0.25, 0.0, 0.25, 0.375, 0.5, 0.75, 1.0};    // seconds
    static const double E0[] = {0.0, 0.25, 0.5, 2.0};
    static const double P1[] = {0.5, 1.0, 3.0, 4.0, 5.0};                    // volts
    static const double E1[] = {0.0, 1.0, 3.0};
    double p0 = P0[nixsym_choice("p0", 7)], e0 = E0[nixsym_choice("e0", 4)], p1 = P1[nixsym_choice("p1", 5)], e1 = E1[nixsym_choice("e1", 3)];
    bool has_extent = nixsym_choice("extent", 2) == 1;
    RangeMatch match = nixsym_choice("match", 2) ? RangeMatch::Inclusive : RangeMatch::Exclusive;
    // the same region in the dimensions' own units (rescaling exact: the values are multiples of 2^-k decimal-free in ms / uV)
    Tag scaled = b.createTag("scaled", "t", {p0, p1}); scaled.units({"s", "V"});
    Tag plain = b.createTag("plain", "t", {p0 * 1e3, p1 * 1e6}); plain.units({"ms", "uV"});
    Tag mixed = b.createTag("mixed", "t", {p0 * 1e3, p1 * 1e3}); mixed.units({"ms", "mV"});
    Tag unitless = b.createTag("unitless", "t", {p0 * 1e3, p1 * 1e6});
    if (has_extent) { scaled.extent({e0, e1}); plain.extent({e0 * 1e3, e1 * 1e6}); mixed.extent({e0 * 1e3, e1 * 1e3}); unitless.extent({e0 * 1e3, e1 * 1e6}); }
    Tag tags[4] = {scaled, plain, mixed, unitless};
    NDSize off[4], cnt[4]; bool threw[4] = {false, false, false, false};
    for (int k = 0; k < 4; k++) {
        tags[k].addReference(a);
        try { DataView dv = util::taggedData(tags[k], a, match); cnt[k] = dv.dataExtent(); std::vector<double> got((size_t)cnt[k].nelms()); dv.getData(DataType::Double, got.data(), cnt[k], NDSize({0, 0})); off[k] = NDSize({(ndsize_t)got[0] / 10, (ndsize_t)got[0] % 10}); }
        catch (const std::exception &) { threw[k] = true; }
    }
    for (int k = 1; k < 4; k++) {
        nixsym_assert(threw[k] == threw[0], "scaled and unscaled request agree on success / out-of-bounds");
        if (!threw[k] && !threw[0]) nixsym_assert(off[k] == off[0] && cnt[k] == cnt[0], "scaled and unscaled request select the same elements");
    }
    // the same four requests as multi-tags (one row of positions / extents per tag; the unit list is per dimension)
    {
        static const char *MU[4][2] = {{"s", "V"}, {"ms", "uV"}, {"ms", "mV"}, {nullptr, nullptr}};
        const double F[4][2] = {{1.0, 1.0}, {1e3, 1e6}, {1e3, 1e3}, {1e3, 1e6}};
        NDSize moff[4], mcnt[4]; bool mthrew[4] = {false, false, false, false};
        for (int k = 0; k < 4; k += 2) {                                            // "s","V" and "ms","mV": the two with different factors per dimension
            std::string nm = std::string("mp") + (char)('0' + k);
            DataArray pos = b.createDataArray(nm, "t", DataType::Double, NDSize({1, 2}));
            { double pv[2] = {p0 * F[k][0], p1 * F[k][1]}; pos.setData(DataType::Double, pv, NDSize({1, 2}), NDSize({0, 0})); }
            MultiTag mt = b.createMultiTag(std::string("mt") + (char)('0' + k), "t", pos);
            if (has_extent) { DataArray ex = b.createDataArray(nm + "e", "t", DataType::Double, NDSize({1, 2})); double ev[2] = {e0 * F[k][0], e1 * F[k][1]}; ex.setData(DataType::Double, ev, NDSize({1, 2}), NDSize({0, 0})); mt.extents(ex); }
            if (MU[k][0]) mt.units({MU[k][0], MU[k][1]});
            mt.addReference(a);
            try { DataView dv = util::taggedData(mt, (ndsize_t)0, a, match); mcnt[k] = dv.dataExtent(); std::vector<double> got((size_t)mcnt[k].nelms()); dv.getData(DataType::Double, got.data(), mcnt[k], NDSize({0, 0})); moff[k] = NDSize({(ndsize_t)got[0] / 10, (ndsize_t)got[0] % 10}); }
            catch (const std::exception &) { mthrew[k] = true; }
        }
        for (int k = 2; k < 4; k += 2) {
            nixsym_assert(mthrew[k] == mthrew[0], "multi-tag: scaled and unscaled request agree on success / out-of-bounds");
            if (!mthrew[k] && !mthrew[0]) nixsym_assert(moff[k] == moff[0] && mcnt[k] == mcnt[0], "multi-tag: scaled and unscaled request select the same elements");
        }
        nixsym_assert(mthrew[0] == threw[0] && (threw[0] || (moff[0] == off[0] && mcnt[0] == cnt[0])), "a multi-tag row selects what the tag with the same position, extent and units selects");
    }
    // slices with units
    {
        bool t1 = false, t2 = false; NDSize c1, c2;
        try { c1 = util::dataSlice(a, {p0, p1}, {p0 + e0, p1 + e1}, {"s", "V"}, match).dataExtent(); } catch (const std::exception &) { t1 = true; }
        try { c2 = util::dataSlice(a, {p0 * 1e3, p1 * 1e6}, {(p0 + e0) * 1e3, (p1 + e1) * 1e6}, {"ms", "uV"}, match).dataExtent(); } catch (const std::exception &) { t2 = true; }
        nixsym_assert(t1 == t2 && (t1 || c1 == c2), "slice with scaled units selects the same elements");
    }
    // a unit that cannot be converted to the dimension's unit is refused
    Tag bad = b.createTag("bad", "t", {p0, p1}); bad.units({"V", "s"}); bad.addReference(a);
    bool refused = false; try { util::taggedData(bad, a, match); } catch (const std::exception &) { refused = true; }
    nixsym_assert(refused, "units of the wrong base unit are refused, not silently used");
    nixsym_reach("same");
}
