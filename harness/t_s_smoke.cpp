#include "nixsym.h"
#include <nix.hpp>
using namespace nix;
extern "C" void vh_s_smoke1() {
    File f = File::open("f1.h5", FileMode::Overwrite);
    Block b = f.createBlock("blk", "t");
    nixsym_assert(f.blockCount() == 1, "one block");
    DataArray da = b.createDataArray("da", "t", DataType::Double, NDSize({3}));
    std::vector<double> v = {1.0, 2.0, 3.0};
    da.setData(v);
    std::vector<double> r;
    da.getData(r);
    nixsym_assert(r.size() == 3 && r[1] == 2.0, "data rt");
    Section s = f.createSection("sec", "t");
    Property p = s.createProperty("p", DataType::Int32);
    f.close();
    File g = File::open("f1.h5", FileMode::ReadOnly);
    nixsym_assert(g.blockCount() == 1 && g.getBlock(0).name() == "blk", "reopen");
    nixsym_declare_reach("end");
    nixsym_reach("end");
}
