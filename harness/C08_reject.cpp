// C08 — a rejected operation leaves no trace (full stack on the HDF5 model)
#include "world.hpp"
using namespace nix;
using namespace vh;

#define N_REJ 51

// each case is a call the API is expected to reject; returns normally if it was (unexpectedly) accepted
static void attempt(World &w, uint32_t op) {
    File other_file;
    switch (op) {
    // duplicate / invalid names, empty types
    case 0:  w.f.createBlock("blk", "t"); break;
    case 1:  w.f.createBlock("a/b", "t"); break;
    case 2:  w.f.createBlock("", "t"); break;
    case 3:  w.f.createBlock("nb", ""); break;
    case 4:  w.f.createSection("sec", "t"); break;
    case 5:  w.f.createSection("x/y", "t"); break;
    case 6:  w.sec.createSection("child", "t"); break;
    case 7:  w.sec.createProperty("temperature", DataType::Double); break;
    case 8:  w.sec.createProperty("", DataType::Double); break;
    case 9:  w.b.createDataArray("da1", "t", DataType::Double, NDSize({2})); break;
    case 10: w.b.createDataArray("n/d", "t", DataType::Double, NDSize({2})); break;
    case 11: w.b.createDataArray("nd", "", DataType::Double, NDSize({2})); break;
    case 12: w.b.createTag("tag", "t", {1.0}); break;
    case 13: w.b.createTag("nt", "", {1.0}); break;
    case 14: w.b.createMultiTag("mtag", "t", w.pos); break;
    case 15: w.b.createGroup("grp", "t"); break;
    case 16: w.b.createSource("src", "t"); break;
    case 17: w.src.createSource("child", "t"); break;
    case 18: w.b.createDataFrame("df", "t", {{"c", "", DataType::Int32}}); break;
    case 19: w.b.createDataFrame("ndf", "t", {{"c", "", DataType::Int32}, {"c", "", DataType::Double}}); break;
    // references to entities that are not in the same block / do not exist
    case 20: { DataArray foreign = w.b2.createDataArray("foreign", "t", DataType::Double, NDSize({2})); std::string before = observe(w.f);
               try { w.b.createMultiTag("nm", "t", foreign); } catch (...) { nixsym_assert(observe(w.f) == before, "rejected createMultiTag(foreign positions) left a trace"); throw; } break; }
    case 21: w.tag.addReference("no-such-array"); break;
    case 22: w.mtag.addReference("no-such-array"); break;
    case 23: w.mtag.positions("no-such-array"); break;
    case 24: w.mtag.extents("no-such-array"); break;
    case 25: w.tag.createFeature("no-such-array", LinkType::Tagged); break;
    case 26: w.grp.addDataArray("no-such-array"); break;
    case 27: w.da1.addSource("no-such-source"); break;
    case 28: w.da1.metadata("no-such-section"); break;
    case 29: w.sec2.link("no-such-section"); break;
    // mismatching shape / element type
    case 30: { DataArray bad = w.b.createDataArray("bad", "t", DataType::Double, NDSize({3})); std::string before = observe(w.f);
               try { w.mtag.extents(bad); } catch (...) { nixsym_assert(observe(w.f) == before, "rejected extents(shape mismatch) left a trace"); throw; } break; }
    case 31: { std::vector<double> v = {1, 2, 3}; w.da1.setData(DataType::Double, v.data(), NDSize({3}), NDSize({2})); break; }   // leaves the data
    case 32: w.prop.values({Variant(1.0), Variant(2.0), Variant(std::string("three"))}); break;
    case 33: w.prop.values({Variant(std::string("text"))}); break;
    case 34: w.df.writeRow(0, {Variant(std::string("wrong")), Variant(std::string("x")), Variant(1.0)}); break;
    case 35: w.df.writeRow(5, {Variant((int64_t)1), Variant(std::string("x")), Variant(1.0)}); break;
    // dimension descriptors
    case 36: w.da1.appendRangeDimension({3.0, 2.0, 1.0}); break;
    case 37: w.da1.appendSampledDimension(0.0); break;
    case 38: w.da1.appendSampledDimension(-1.0); break;
    case 39: w.da1.getDimension(1).asSampledDimension().samplingInterval(-2.0); break;
    case 40: w.da1.getDimension(1).asSampledDimension().unit("foo"); break;
    case 41: w.da2.getDimension(2).asRangeDimension().ticks({5.0, 4.0}); break;
    case 42: w.da1.unit("parsec"); break;
    case 43: w.tag.units({"s", "bananas"}); break;
    case 44: w.da2.appendAliasRangeDimension(); break;
    // out-of-range index
    case 45: w.da1.getDimension(7); break;
    // cooperating look-alikes: an array of ANOTHER block with the same name as one of this block; UUID-shaped names
    case 46: w.b.createMultiTag("nm", "t", w.b2_pos); break;
    case 47: w.b.createTag(UUID_NAME, "t", {1.0}); break;
    case 48: w.b.createDataArray(UUID_NAME, "t", DataType::Double, NDSize({2})); break;
    case 49: w.mtag.positions(w.b2_pos); break;
    case 50: w.tag.addReference(w.b2_pos); break;
    }
}

// calls of the menu the library accepts on the unchanged tree (DataArray::unit does not validate; getDimension(7) returns an
// empty handle; an entity argument of another block is resolved BY NAME in this block, so a same-named array is taken instead)
static bool accepted_today(uint32_t op) { return op == 42 || op == 45 || op == 50; }

extern "C" void vh_c08_reject() {
    World w;
    build_world(w);
    uint32_t op = nixsym_choice("op", N_REJ);
    nixsym_declare_reach(accepted_today(op) ? "accepted" : "rejected");
    std::string before = observe(w.f);
    bool threw = false;
    try { attempt(w, op); } catch (const std::exception &) { threw = true; }
    if (threw) {
        nixsym_reach("rejected");
        std::string after;
        if (op == 20 || op == 30) return;       // compared inside attempt() (the set-up created a helper entity first)
        after = observe(w.f);
        nixsym_assert(before == after, "a rejected call left the observable state unchanged");
    } else nixsym_reach("accepted");
}

// the same after close + reopen: nothing half-created surfaces later
extern "C" void vh_c08_reject_reopen() {
    World w;
    build_world(w);
    uint32_t op = nixsym_choice("op", N_REJ);
    if (op == 20 || op == 30) return;
    if (!accepted_today(op)) nixsym_declare_reach("rejected");
    std::string before = observe(w.f);
    bool threw = false;
    try { attempt(w, op); } catch (const std::exception &) { threw = true; }
    if (!threw) return;
    nixsym_reach("rejected");
    drop_handles(w); w.f.close();
    File g = File::open(WORLD_FILE, FileMode::ReadOnly);
    nixsym_assert(observe(g) == before, "after reopen the file is as it was before the rejected call");
}
