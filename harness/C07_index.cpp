// C07 — position -> index conversion obeys the documented matching rules (kernel tier)
// Real code under analysis: nix::getSampledIndex / getIndex / getSetIndex / getDataFrameIndex (src/Dimensions.cpp)
#include "nixsym.h"
#include <nix/Dimensions.hpp>
#include <boost/optional.hpp>
#include <vector>
#include <string>
#include <cmath>

// the kernels are file-level (global namespace) functions of src/Dimensions.cpp
boost::optional<nix::ndsize_t> getSampledIndex(const double position, const double offset, const double sampling_interval, const nix::PositionMatch match);
boost::optional<nix::ndsize_t> getSetIndex(const double position, std::vector<std::string> labels, const nix::PositionMatch match);
boost::optional<nix::ndsize_t> getIndex(const double position, std::vector<double> &ticks, nix::PositionMatch matching);
boost::optional<nix::ndsize_t> getDataFrameIndex(const double position, const nix::ndsize_t tick_count, const nix::PositionMatch match);
using namespace nix;

#ifndef VH_RANGE_MAXTICKS
#define VH_RANGE_MAXTICKS 3
#endif
#ifndef VH_SET_MAXLABELS
#define VH_SET_MAXLABELS 3
#endif
#ifndef VH_IMAX
#define VH_IMAX 255
#endif

// Known finding C07-eps-zone: the set / data-frame / sampled kernels treat a position that lies within DBL_EPSILON (absolute)
// of an axis coordinate, but is not equal to it, as if it were that coordinate.  The predicate is exactly that zone.
static bool eps_zone(double p, double interval, double offset) {
    double q = (p - offset) / interval;
    double xc = std::ceil(q) * interval + offset, xf = std::floor(q) * interval + offset;
    const double eps = 2.220446049250313e-16;
    return ((xc != p) & (std::fabs(xc - p) <= eps)) | ((xf != p) & (std::fabs(xf - p) <= eps));     // no branching: one solver term
}

static PositionMatch pick_match() {
    switch (nixsym_choice("match", 5)) {
    case 0: return PositionMatch::Equal; case 1: return PositionMatch::Less; case 2: return PositionMatch::Greater;
    case 3: return PositionMatch::GreaterOrEqual; default: return PositionMatch::LessOrEqual;
    }
}

// The documented rule, stated against an ascending axis x(0) < x(1) < ... (n entries; !bounded: no upper end).
// Only the neighbours of the answer are inspected (the axis is monotone).
template <class AX>
static void check_rule(const boost::optional<ndsize_t> &r, double p, PositionMatch m, AX x, ndsize_t n, bool bounded) {
    bool empty = bounded && n == 0;
    if (r) {
        ndsize_t i = *r;
        nixsym_reach("index");
        nixsym_assert(!bounded || i < n, "returned index lies on the axis");
        if (bounded && i >= n) return;
        bool last = bounded && i == n - 1;
        switch (m) {
        case PositionMatch::Less:           nixsym_assert(x(i) < p && (last || x(i + 1) >= p), "Less: largest i with x_i < p"); break;
        case PositionMatch::LessOrEqual:    nixsym_assert(x(i) <= p && (last || x(i + 1) > p), "LessOrEqual: largest i with x_i <= p"); break;
        case PositionMatch::GreaterOrEqual: nixsym_assert(x(i) >= p && (i == 0 || x(i - 1) < p), "GreaterOrEqual: smallest i with x_i >= p"); break;
        case PositionMatch::Greater:        nixsym_assert(x(i) > p && (i == 0 || x(i - 1) <= p), "Greater: smallest i with x_i > p"); break;
        case PositionMatch::Equal:          nixsym_assert(x(i) == p, "Equal: x_i == p"); break;
        }
    } else {
        nixsym_reach("none");
        switch (m) {
        case PositionMatch::Less:           nixsym_assert(empty || !(x(0) < p), "Less: none only if no x_i < p"); break;
        case PositionMatch::LessOrEqual:    nixsym_assert(empty || !(x(0) <= p), "LessOrEqual: none only if no x_i <= p"); break;
        case PositionMatch::GreaterOrEqual: nixsym_assert(bounded && (empty || !(x(n - 1) >= p)), "GreaterOrEqual: none only if no x_i >= p"); break;
        case PositionMatch::Greater:        nixsym_assert(bounded && (empty || !(x(n - 1) > p)), "Greater: none only if no x_i > p"); break;
        case PositionMatch::Equal: break;   // checked by the caller with a free index
        }
    }
}

// ---------------- range dimension kernel: all doubles, comparison only ----------------
extern "C" void vh_c07_range() {
    nixsym_declare_reach("index"); nixsym_declare_reach("none");
    uint32_t L = nixsym_choice("nticks", VH_RANGE_MAXTICKS + 1);
    std::vector<double> ticks(L);
    for (uint32_t i = 0; i < L; i++) { ticks[i] = nixsym_f64("tick"); nixsym_assume(ticks[i] == ticks[i]); if (i) nixsym_assume(ticks[i - 1] < ticks[i]); }
    double p = nixsym_f64("p");
    nixsym_assume(p == p);
    PositionMatch m = pick_match();
    std::vector<double> copy = ticks;
    boost::optional<ndsize_t> r = getIndex(p, copy, m);
    nixsym_assert(copy == ticks, "ticks not modified");
    check_rule(r, p, m, [&](ndsize_t i) { return ticks[i]; }, L, true);
    if (!r && m == PositionMatch::Equal) for (uint32_t i = 0; i < L; i++) nixsym_assert(!(ticks[i] == p), "Equal: none only if p is not a tick");
}

// NaN position: must not crash, result unspecified
extern "C" void vh_c07_range_nan() {
    uint32_t L = nixsym_choice("nticks", VH_RANGE_MAXTICKS + 1);
    std::vector<double> ticks(L);
    for (uint32_t i = 0; i < L; i++) { ticks[i] = nixsym_f64("tick"); if (i) nixsym_assume(ticks[i - 1] < ticks[i]); }
    double p = nixsym_f64("p");
    nixsym_assume(p != p);
    PositionMatch m = pick_match();
    boost::optional<ndsize_t> r = getIndex(p, ticks, m);
    nixsym_declare_reach("done"); nixsym_reach("done");
    (void)r;
}

// ---------------- set dimension kernel ----------------
extern "C" void vh_c07_set() {
    nixsym_declare_reach("index"); nixsym_declare_reach("none");
    uint32_t n = nixsym_choice("nlabels", VH_SET_MAXLABELS + 1);
    std::vector<std::string> labels(n, "l");
    double p = nixsym_f64("p");
    nixsym_assume(p == p && p > -1e15 && p < 1e15);      // huge positions: C16 harness (fptoui range)
    nixsym_finding("C07-eps-zone", eps_zone(p, 1.0, 0.0));
    PositionMatch m = pick_match();
    boost::optional<ndsize_t> r = getSetIndex(p, labels, m);
    check_rule(r, p, m, [](ndsize_t i) { return (double)i; }, n, n > 0);
    if (!r && m == PositionMatch::Equal) {
        // none only if p is not an integer on the axis
        bool onaxis = p >= 0 && p == std::floor(p) && (n == 0 || p <= (double)(n - 1));
        nixsym_assert(!onaxis, "Equal: none only if p is no axis coordinate");
    }
}

// ---------------- data-frame dimension kernel (row count fully symbolic) ----------------
extern "C" void vh_c07_df() {
    nixsym_declare_reach("index"); nixsym_declare_reach("none");
    ndsize_t n = nixsym_u64("rows");
    nixsym_assume(n >= 1 && n <= (1ULL << 40));
    double p = nixsym_f64("p");
    nixsym_assume(p == p && p > -1e15 && p < 1e15);
    nixsym_finding("C07-eps-zone", eps_zone(p, 1.0, 0.0));
    PositionMatch m = pick_match();
    boost::optional<ndsize_t> r = getDataFrameIndex(p, n, m);
    check_rule(r, p, m, [](ndsize_t i) { return (double)i; }, n, true);
    if (!r && m == PositionMatch::Equal) {
        bool onaxis = p >= 0 && p == std::floor(p) && p <= (double)(n - 1);
        nixsym_assert(!onaxis, "Equal: none only if p is no axis coordinate");
    }
}

// ---------------- sampled dimension kernel: constant (interval, offset), symbolic position and index ----------------
#ifndef VH_INTERVAL
#define VH_INTERVAL 1.0
#endif
#ifndef VH_OFFSET
#define VH_OFFSET 0.0
#endif
static inline double sampled_x(ndsize_t i) { return (double)i * (double)(VH_INTERVAL) + (double)(VH_OFFSET); }   // == SampledDimension::positionAt

// (a) round trip: the coordinate of sample i converts back to i (i-1 for Less, i+1 for Greater)
extern "C" void vh_c07_sampled_roundtrip() {
    nixsym_declare_reach("checked");
    ndsize_t i = nixsym_u64("i");
    nixsym_assume(i <= VH_IMAX);
    double p = sampled_x(i);
    PositionMatch m = pick_match();
    boost::optional<ndsize_t> r = getSampledIndex(p, VH_OFFSET, VH_INTERVAL, m);
    switch (m) {
    case PositionMatch::Equal: case PositionMatch::GreaterOrEqual: case PositionMatch::LessOrEqual:
        nixsym_assert(r && *r == i, "sample coordinate converts back to its index"); break;
    case PositionMatch::Less:
        nixsym_assert(i == 0 ? !r : (r && *r == i - 1), "Less(x_i) == i-1 (none for i == 0)"); break;
    case PositionMatch::Greater:
        nixsym_assert(r && *r == i + 1, "Greater(x_i) == i+1"); break;
    }
    nixsym_reach("checked");
}

// (b) arbitrary position: the rule against the axis the library defines
extern "C" void vh_c07_sampled_any() {
    nixsym_declare_reach("index");
    double p = nixsym_f64("p");
    nixsym_assume(p == p && p >= sampled_x(0) - 4 * (double)(VH_INTERVAL) && p <= sampled_x(VH_IMAX));
    nixsym_finding("C07-eps-zone", eps_zone(p, VH_INTERVAL, VH_OFFSET));
    PositionMatch m = pick_match();
    if (m != PositionMatch::Greater && m != PositionMatch::GreaterOrEqual) nixsym_declare_reach("none");   // the axis has no upper end
    boost::optional<ndsize_t> r = getSampledIndex(p, VH_OFFSET, VH_INTERVAL, m);
    if (r) nixsym_assume(*r <= VH_IMAX + 2);   // keeps uitofp small; indices beyond are outside this bound
    check_rule(r, p, m, sampled_x, 0, false);
    if (!r && m == PositionMatch::Equal) {
        ndsize_t j = nixsym_u64("j");
        nixsym_assume(j <= VH_IMAX);
        nixsym_assert(!(sampled_x(j) == p), "Equal: none only if p is no sample coordinate");
    }
}
