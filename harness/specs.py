# Registered checks: property id -> harness files, entries, bounds.  See DESIGN.md section 3.
SPECS = {
 "T00": {"harnesses": [
     {"file": "t_smoke.cpp", "entries": [{"entry": "vh_smoke1"}, {"entry": "vh_smoke2"}]},
     {"file": "t_s_smoke.cpp", "entries": [{"entry": "vh_s_smoke1"}]},
 ]},
}
