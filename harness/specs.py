# Registered checks: property id -> harness files, entries, bounds.  See DESIGN.md section 3.
SPECS = {
 "C05": {
  "explanation": "Real util::taggedData / featureData / getOffsetAndCount / positionToIndex / Dimension::indexOf pair logic / getIndex / DataView / back-end on arrays stored in the HDF5 model; rank, extents and descriptor kinds (labelled set, set, sampled, range with symbolic ticks, data-frame) by fork, tag positions/extents symbolic doubles; oracle: per specified dimension the index set whose coordinate lies in the region (inclusive/exclusive), point rule for absent/zero extent, whole axis for unspecified dimensions, error iff empty or outside the data; the returned view is compared element by element. Quick tier: the three arithmetic index kernels are replaced by the relation C07 decides for them (comparison-only contract); thorough tier adds runs with the real kernels.",
  "bounds": {"quick": {"rank": "1..2", "extent_per_axis": "1..2", "dimension_kinds": ["set with labels", "set without labels", "sampled (1,0) (0.5,-1)", "range with symbolic ticks", "data-frame"], "position_entries": "1..rank+1", "positions/extents": "symbolic doubles, |v| < 1e15, non-NaN; on unbounded axes (sampled, unlabelled set) regions ending beyond coordinate extent+1 are outside the bound"},
             "thorough": {"rank": "1..3 (contract kernels), 1 (real kernels)", "extent_per_axis": "1..3", "sampled": "(1,0) (0.5,-1) (0.1,0) (3,100.25)"}},
  "outside": ["symbolic sampling intervals/offsets (kernel: C07)", "extents above the bound", "units other than none (C18)", "behaviour of the arithmetic index kernels themselves in the quick tier (C07)"],
  "assumptions": ["libhdf5 replaced by h5model", "quick tier: getSampledIndex/getSetIndex/getDataFrameIndex satisfy the C07 relation exactly (contract stub in harness/tagging.hpp)"],
  "harnesses": [{"file": "C05_tag.cpp", "defines": {"quick": ["-DVH_MAXRANK=2", "-DVH_MAXEXT=2", "-DVH_NSAMPLING=2"], "thorough": ["-DVH_MAXRANK=3", "-DVH_MAXEXT=3", "-DVH_NSAMPLING=4"]},
     "entries": [{"entry": e, "label": "%s.r0.k%d" % (e, k), "fix": {"rank": 0, "kind#0": k}} for e in ("vh_c05_tagged", "vh_c05_feature") for k in range(5)]
               + [{"entry": "vh_c05_tagged", "label": "vh_c05_tagged.r1.f%d.k%d" % (f, k), "fix": {"rank": 1, "focus": f, "n": 1, "kind#%d" % f: k, "kind#%d" % (1 - f): [1, 3, 4, 0, 1][k]}, "tiers": ["quick"]} for f in range(2) for k in range(5)]
               + [{"entry": e, "label": "%s.r1.f%d.k%d.o%d" % (e, f, k, o), "fix": {"rank": 1, "focus": f, "kind#%d" % f: k, "kind#%d" % (1 - f): o}, "tiers": ["thorough"]} for e in ("vh_c05_tagged", "vh_c05_feature") for f in range(2) for k in range(5) for o in range(5)]
               + [{"entry": "vh_c05_tagged", "label": "vh_c05_tagged.r2.f%d.k%d" % (f, k), "fix": dict([("rank", 2), ("focus", f), ("n", 1)] + [("kind#%d" % d, (k if d == f else (k + 1 + d) % 5)) for d in range(3)]), "tiers": ["thorough"]} for f in range(3) for k in range(5)]
     },
     {"file": "C05_tag.cpp", "tiers": ["thorough"], "defines": {"thorough": ["-DVH_MAXRANK=1", "-DVH_MAXEXT=2", "-DVH_NSAMPLING=3", "-DVH_REAL_KERNELS=1"]},
      "entries": [{"entry": "vh_c05_tagged", "label": "vh_c05_tagged.real.k%d.n%d.x%d" % (k, n, x), "fix": {"rank": 0, "kind#0": k, "n": n, "extent": x}, "no_replace": ["getSampledIndex", "getSetIndex", "getDataFrameIndex"],
                   "limits": {"thorough": {"timeout": 3000}}} for k in (0, 1, 3, 4) for n in range(2) for x in range(2)]}]},
 "C06": {
  "explanation": "Real util::taggedData / featureData (list and single-index overloads, MultiTag::taggedData with the default mode) / getOffsetAndCount(MultiTag) / positionToIndex / Dimension::indexOf pair logic / DataView / back-end on arrays stored in the HDF5 model; positions/extents arrays of N rows and rank-1, rank or rank+1 columns, row 0 symbolic in one focus dimension; index lists incl. indices past the end; oracle as in C05 applied to row i; list retrieval must equal the single retrievals; Indexed/Untagged/Tagged features. Quick tier: arithmetic index kernels replaced by the C07 relation (see C05).",
  "bounds": {"quick": {"rank": "1..2", "extent_per_axis": "1..2", "positions": "1..2 rows", "index_lists": 6, "dimension_kinds": 5},
             "thorough": {"rank": "1..2", "extent_per_axis": "1..3", "positions": "1..3 rows"}},
  "outside": ["N up to 8 of the statement (bound: 3)", "1-D positions tagging data of rank > 1", "units other than none (C18)", "symbolic sampling intervals/offsets (C07)"],
  "assumptions": ["libhdf5 replaced by h5model", "quick tier: getSampledIndex/getSetIndex/getDataFrameIndex satisfy the C07 relation exactly (contract stub in harness/tagging.hpp)"],
  "harnesses": [{"file": "C06_mtag.cpp", "defines": {"quick": ["-DVH_MAXRANK=2", "-DVH_MAXEXT=2", "-DVH_NSAMPLING=2", "-DVH_MAXPOS=2", "-DVH_NLISTS=4"], "thorough": ["-DVH_MAXRANK=2", "-DVH_MAXEXT=3", "-DVH_NSAMPLING=4", "-DVH_MAXPOS=3"]},
     "entries": [{"entry": "vh_c06_tagged", "label": "vh_c06_tagged.q.r0.k%d.c%d" % (k, c), "fix": {"rank": 0, "kind#0": k, "cols": c, "npositions": 1}, "tiers": ["quick"]} for (k, c) in ((0, 1), (1, 1), (2, 1), (3, 1), (4, 1), (1, 0), (1, 2))]
               + [{"entry": "vh_c06_feature", "label": "vh_c06_feature.q.r0.k%d.c%d" % (k, c), "fix": {"rank": 0, "kind#0": k, "cols": c, "npositions": 1}, "tiers": ["quick"]} for (k, c) in ((0, 0), (1, 1))]
               + [{"entry": "vh_c06_tagged", "label": "vh_c06_tagged.q.r1.f%d.k%d" % (f, k), "fix": {"rank": 1, "focus": f, "n": 1, "cols": 1, "npositions": 1, "kind#%d" % f: k, "kind#%d" % (1 - f): [1, 3, 4, 0, 1][k]}, "tiers": ["quick"]} for (f, k) in ((0, 1), (1, 3), (0, 0))]
               + [{"entry": "vh_c06_tagged", "label": "vh_c06_tagged.q.r1.cols%d" % c, "fix": {"rank": 1, "focus": 0, "n": 1, "cols": c, "npositions": 1, "kind#0": 0, "kind#1": 1}, "tiers": ["quick"]} for c in (0, 2)]
               + [{"entry": e, "label": "%s.r0.k%d.c%d" % (e, k, c), "fix": {"rank": 0, "kind#0": k, "cols": c}, "tiers": ["thorough"]} for e in ("vh_c06_tagged", "vh_c06_feature") for k in range(5) for c in range(3)]
               + [{"entry": e, "label": "%s.r1.f%d.k%d.o%d" % (e, f, k, o), "fix": {"rank": 1, "focus": f, "cols": 1, "kind#%d" % f: k, "kind#%d" % (1 - f): o}, "tiers": ["thorough"]} for e in ("vh_c06_tagged", "vh_c06_feature") for f in range(2) for k in range(5) for o in range(5)]}]},
 "C17": {
  "explanation": "K: DataView construction and DataView::transform_coordinates with full 64-bit symbolic counts/offsets against an oracle in unbounded arithmetic (admitted iff offset+count <= window in every dimension; base = origin+offset; rejection = OutOfBounds). S: reads and writes through a view on the HDF5 model touch exactly the requested block at window origin + offset and nothing else; rejected requests transfer nothing. util::dataSlice + fillPositionsExtentsAndUnits + positionToIndex + Dimension::indexOf on arrays of every descriptor kind with 0..rank(+1) start/end entries, symbolic positions, both RangeMatch modes, compared element by element with the documented region (quick tier: arithmetic index kernels replaced by the C07 relation, as in C05).",
  "bounds": {"quick": {"view": "rank 1..2, array 5 / 3x4, window origin 0..2 size 1..2; requests: any 64-bit value (K) / 0..3 (I/O)", "slice": "rank 1..2, extent 1..2 per axis, 5 descriptor kinds, entries 0..rank+1"},
             "thorough": {"slice": "extent 1..3 per axis, all kind pairs"}},
  "outside": ["units (C18)", "rank 3", "symbolic sampling intervals/offsets (C07)"],
  "assumptions": ["libhdf5 replaced by h5model", "quick tier: contract index kernels (harness/tagging.hpp)"],
  "harnesses": [{"file": "C17_slice.cpp", "defines": {"quick": ["-DVH_MAXRANK=2", "-DVH_MAXEXT=2", "-DVH_NSAMPLING=2"], "thorough": ["-DVH_MAXRANK=2", "-DVH_MAXEXT=3", "-DVH_NSAMPLING=4"]},
     "entries": [{"entry": "vh_c17_view_ctor"}, {"entry": "vh_c17_view_coords"}]
               + [{"entry": "vh_c17_view_io", "label": "vh_c17_view_io.r%d.w%d" % (r, w), "fix": {"rank": r, "write": w}} for r in range(2) for w in range(2)]
               + [{"entry": "vh_c17_slice", "label": "vh_c17_slice.r0.k%d" % k, "fix": {"rank": 0, "kind#0": k}} for k in range(5)]
               + [{"entry": "vh_c17_slice", "label": "vh_c17_slice.r1.f%d.k%d" % (f, k), "fix": {"rank": 1, "focus": f, "n": 1, "kind#%d" % f: k, "kind#%d" % (1 - f): [1, 3, 4, 0, 1][k]}, "tiers": ["quick"]} for f in range(2) for k in range(5)]
               + [{"entry": "vh_c17_slice", "label": "vh_c17_slice.r1.f%d.k%d.o%d" % (f, k, o), "fix": {"rank": 1, "focus": f, "kind#%d" % f: k, "kind#%d" % (1 - f): o}, "tiers": ["thorough"]} for f in range(2) for k in range(5) for o in range(5)]}]},
 "C19": {
  "explanation": "Full stack on the HDF5 model: File::validate / valid::validate(...) over files whose entities breach the documented rules in every combination the harness can build - descriptor count vs. rank, tick / label / data-frame row counts vs. data length, tick order and sampling interval (symbolic doubles, written through the back-end interface as another writer of the format would), tag and multi-tag units vs. the units of the referenced dimensions, multi-tag without positions, feature without data, and the soft rules (array unit, calibration halves, offset without unit, property values without unit). Oracle: hard and soft breach sets computed from the construction; no hard breach => no error; every breaching entity has an error carrying its id; soft breaches never produce errors.",
  "bounds": {"array": "rank 1..2 (extents 3, 3x2), rank-1..rank+1 descriptors of 4 kinds, counts off by -1/0/+1, symbolic ticks and interval", "tags": "0..2 tag units from 4 candidates x 3 dimension units x tag/multi-tag x 3 extras"},
  "outside": ["unit grammar itself (modelled by a hand-written matcher)", "rank 3", "sources / sections beyond name/type/id rules", "more than one reference per tag"],
  "assumptions": ["libhdf5 replaced by h5model", "unit grammar (boost::regex) replaced by a hand-written matcher of the same expressions"],
  "harnesses": [{"file": "C19_validate.cpp", "entries": [{"entry": "vh_c19_conforming"}]
        + [{"entry": "vh_c19_array", "label": "vh_c19_array.r%d.n%d.k%d" % (r, n, k), "fix": {"rank": r, "ndims": n, "kind#0": k}} for r in range(2) for n in range(3) for k in range(4) if not (r == 0 and n == 0 and k > 0)]
        + [{"entry": "vh_c19_tags", "label": "vh_c19_tags.m%d.n%d.d%d" % (m, n, u), "fix": {"multi": m, "ntagunits": n, "dimunit#0": u}} for m in range(2) for n in range(3) for u in range(3)]}]},
 "C20": {
  "technique": "symbolic execution of the real code's LLVM IR (nixsym) over a finite family of histories: every choice is forked and executed on the full stack, the engine's memory-safety queries go to z3; the property data here is concrete, so the solver's share is the feasibility and safety queries",
  "explanation": "Full stack on the HDF5 model: section and source trees of symbolic shape (child counts by fork, names a/b/c re-used at different places) are searched with Section::findSections / File::findSections / Source::findSources / Block::findSources under accept-all, id, name and id-set filters and every depth limit 0..depth+1 plus the unlimited default, from every start node, and compared (elements and order) with a breadth-first traversal computed by the harness from the construction record; parentSource() for every source; referring* back references under symbolic metadata / source assignments (incl. same-named arrays in two blocks); inheritedProperties for all subsets of own and linked property names.",
  "bounds": {"quick": {"depth": "<= 3 levels (one root) / 2 levels (two roots)", "branching": "<= 2", "filters": 4, "depth_limits": "0..4 and default", "start_nodes": "the first two"},
             "thorough": {"depth": "<= 3 levels", "branching": "<= 2", "roots": "1..2", "start_nodes": "all"}},
  "outside": ["TypeFilter (boost::regex)", "depth 5 / branching 4 of the statement (4^5 nodes)", "findRelated (covered only through findSections)", "searches after deletions"],
  "assumptions": ["libhdf5 replaced by h5model"],
  "harnesses": [{"file": "C20_search.cpp", "defines": {"quick": ["-DVH_DEPTH=3", "-DVH_BRANCH=2", "-DVH_STARTS=2"], "thorough": ["-DVH_DEPTH=3", "-DVH_BRANCH=2", "-DVH_STARTS=64"]},
     "entries": [{"entry": e, "label": "%s.r0.l%d.c%d.f%d" % (e, l, c, fl), "fix": {"roots": 0, "levels": l, "children#0": c, "filter": fl}, "tiers": (["quick", "thorough"] if (l == 1 and c > 0) or (l == 0 and c == 2) else ["thorough"])} for e in ("vh_c20_sections", "vh_c20_sources") for l in range(2) for c in range(3) for fl in range(4)]
               + [{"entry": e, "label": "%s.r1.l%d.c%d.f%d" % (e, l, c, fl), "fix": {"roots": 1, "levels": l, "children#0": c, "filter": fl}, "tiers": (["quick", "thorough"] if l == 0 and c == 1 else ["thorough"])} for e in ("vh_c20_sections", "vh_c20_sources") for l in range(2) for c in range(3) for fl in range(4)]
               + [{"entry": "vh_c20_backrefs", "label": "vh_c20_backrefs.m%d.a%d" % (m, a), "fix": {"md#0": m, "md#1": a}} for m in range(3) for a in range(3)]
               + [{"entry": "vh_c20_inherited", "label": "vh_c20_inherited.l%d" % l, "fix": {"link": l}} for l in range(2)]}]},
 "C18": {
  "technique": "symbolic execution of the real code's LLVM IR (nixsym) over a finite family of histories: every choice is forked and executed on the full stack, the engine's memory-safety queries go to z3; the property data here is concrete, so the solver's share is the feasibility and safety queries",
  "explanation": "Arithmetic: the real util::getSIScaling / isScalable / splitUnit / isSIUnit bodies are executed for every pair of the 21 prefixes (incl. none) x the 31 base units x 5 powers: factor = 10^(power*(exp_a-exp_b)) (relative 1e-12), reciprocity, composition through a third unit, symmetry of scalability, rejection of other base units / powers / non-SI units, and repeatability of the answers within one process. Transparency: on a 4x3 array with a sampled axis in ms and a range axis in uV, tags, and slices, given in s/V, ms/uV, ms/mV and without units (numerically rescaled, binary-exact values) must select the same elements or fail alike, for 7x5 positions, 4x3 extents, absent extents and both RangeMatch modes; wrong base units are refused.",
  "bounds": {"prefix_pairs": "21 x 21", "base_units": "all 31 of util.cpp UNITS (quick: every base unit with one of the powers '', ^2, ^-1, and V, s, Hz, m with all five)", "powers": ["", "^2", "^-1", "^3", "^-3"], "retrieval": "fixed 4x3 array, position/extent menus (binary-exact values)"},
  "outside": ["the unit grammar: which strings are SI units and how they split (boost::regex + locale facets have no tractable encoding; a hand-written matcher of the same expressions stands in)", "compound units", "scaling factors below 1 in retrieval (inexact in binary floating point by nature)", "symbolic positions (C05/C06/C17 decide the glue for all positions)"],
  "assumptions": ["unit grammar (boost::regex) replaced by a hand-written matcher of the same expressions", "libhdf5 replaced by h5model", "pow() evaluated by the host libm on concrete arguments", "contract index kernels (harness/tagging.hpp)"],
  "level_text": "Bounded verification by exhaustive execution of the real code over a finite domain (every prefix pair; menus of binary-exact positions): the engine explores every choice, all values are concrete so the solver's part is trivial. Nothing is claimed about the unit grammar itself.",
  "harnesses": [{"file": "C18_units.cpp", "defines": {"quick": ["-DVH_MAXEXT=12"], "thorough": ["-DVH_MAXEXT=12"]},
     "entries": [{"entry": "vh_c18_scaling", "label": "vh_c18_scaling.b%d.p%d" % (bs, pw), "fix": {"base": bs, "power": pw}, "tiers": (["quick", "thorough"] if pw == (bs % 3) or bs < 4 else ["thorough"])} for bs in range(31) for pw in range(5)]
               + [{"entry": "vh_c18_reject", "label": "vh_c18_reject.b%d.p%d" % (bs, pw), "fix": {"base": bs, "power": pw}, "tiers": (["quick", "thorough"] if pw == (bs % 3) else ["thorough"])} for bs in range(31) for pw in range(5)]
               + [{"entry": "vh_c18_transparent", "label": "vh_c18_transparent.x%d.m%d.p%d" % (x, m, p), "fix": {"extent": x, "match": m, "p0": p}} for x in range(2) for m in range(2) for p in range(7)]}]},
 "C16": {
  "explanation": "The engine checks every load, store, free, float->integer conversion, division and allocation on every explored path of EVERY harness (all properties); this check adds the out-of-contract programs: on the fully linked world file one of 48 calls is made (44 out-of-contract ones, 4 in-contract reads into exactly sized buffers with and without calibration) - every index getter with an arbitrary 64-bit index, data I/O with arbitrary offsets / wrong ranks / empty requests, NDSize misuse, uninitialised handles, handles to entities deleted meanwhile (array, positions, property, array under a DataView), data-frame access by arbitrary row/column/offset, retrieval with arbitrary reference / feature / position indices, more slice entries than dimensions - and the real index kernels are driven with positions of any magnitude incl. NaN and infinities. Oracle: the call returns or throws a C++ exception, no engine check fires, the file stays usable.",
  "bounds": {"misuse_menu": 48, "file": "harness/world.hpp", "indices/offsets": "any 64-bit value", "positions": "any double"},
  "outside": ["'all finite programs': only the bounded programs of the harnesses; functions no harness reaches are not covered (functions_encoded lists what was)", "libhdf5 internals (modelled)", "allocation failure", "threads"],
  "assumptions": ["libhdf5 replaced by h5model", "operator new never fails"],
  "harnesses": [{"file": "C16_misuse.cpp", "entries": [{"entry": "vh_c16_misuse", "label": "vh_c16_misuse.op%d" % o, "fix": {"op": o}} for o in range(66)]
       + [{"entry": "vh_c16_positions", "label": "vh_c16_positions.d%d" % d, "fix": {"dim": d}} for d in range(4)]}]},
 "C01": {
  "explanation": "Full stack on the HDF5 model for 10 numeric element types plus Bool and String: bounded histories of hyperslab writes (offset/count inside, touching and crossing the edge), appends along each axis, extent changes (grow/shrink) and sub-region reads with symbolic element values, compared with a dense reference array after every step and after reopen; reads as other numeric types; calibration polynomial/origin in the exact regime (integer-valued doubles) with raw reads unaffected; kernel checks of applyPolynomial (arbitrary doubles, order-independent facts) and guessChunking.",
  "bounds": {"quick": {"history_steps": 2, "rank": "1..2", "extent": "<= 3 per axis (4 after append)", "values": "symbolic, full range of the type", "polynomial": "degree <= 2, |coef| < 1024, |x|,|origin| < 256"},
             "thorough": {"history_steps": 3}},
  "outside": ["chunked/compressed storage and the on-disk round trip (libhdf5)", "boost::multi_array overloads of Hydra", "ranks > 2, extents > 4", "polynomials on non-integer data (rounding of the evaluation order is not a property)", "value conversion done by the real H5Tconvert"],
  "assumptions": ["libhdf5 replaced by h5model (hyperslab selection, same-class numeric conversion with clamping, vlen strings, fill value zero/NULL)"],
  "harnesses": [{"file": "C01_data.cpp", "defines": {"quick": ["-DVH_STEPS=2"], "thorough": ["-DVH_STEPS=3"]},
     "entries": [{"entry": "vh_c01_rw_" + t, "label": "vh_c01_rw_%s.s%d" % (t, sh), "fix": {"shape": sh}, "tiers": (["quick", "thorough"] if t in ("f64", "i32", "u8") else ["thorough"])}
                 for t in ("f64", "f32", "i32", "i64", "u8", "u16", "u64", "i8", "i16", "u32") for sh in range(3)]
              + [{"entry": "vh_c01_polynomial", "label": "vh_c01_polynomial.r0.n%d.p%d" % (n, pv), "fix": {"regime": 0, "ncoef": n, "prev": pv}} for n in range(3) for pv in range(1, 3)]
              + [{"entry": "vh_c01_polynomial", "label": "vh_c01_polynomial.r0.n%d.p0.o%d.g%d" % (n, o, g), "fix": {"regime": 0, "ncoef": n, "prev": 0, "o": o, "origin": g}} for n in range(3) for o in range(3) for g in range(2)]
              + [{"entry": "vh_c01_polynomial", "label": "vh_c01_polynomial.r1.n%d.w%d.p%d" % (n, w, pv), "fix": {"regime": 1, "ncoef": n, "symcoef": w, "prev": pv}, "tiers": (["quick", "thorough"] if n < 3 and w == 0 else ["thorough"])} for n in range(1, 4) for w in range(n) for pv in range(3)]
              + [{"entry": e} for e in ("vh_c01_bool_string", "vh_c01_convert", "vh_c01_applypoly_kernel", "vh_c01_chunks", "vh_c01_calibrated_types")]}]},
 "C15": {
  "explanation": "Full stack on the HDF5 model (compound datasets, member-by-name conversion, vlen strings): a 3-column frame (Int64, String, Double) is driven through bounded histories of rows(n) / writeRow / writeCell(s) / writeColumn(offset,count) with symbolic payloads, and after every step and after reopen all cells are read back through readRow, readCell (by index and name) and readColumn (resize, offset) and compared with a reference table; a second entry covers Bool/Int32/UInt32/UInt64 cells and schema mismatch.",
  "bounds": {"quick": {"history_steps": 2, "rows": "0..3", "columns": 3, "string_bytes": "0..2"}, "thorough": {"history_steps": 3, "string_bytes": "0..1", "writeCells": "single cells and complete rows in every order (not the two-cell subsets), cells addressed alternately by index and name"}},
  "outside": ["schemas with more than 4 columns", "more than 3 rows", "long strings"],
  "assumptions": ["libhdf5 replaced by h5model (compound member conversion by name; unwritten vlen strings read as NULL pointers, as libhdf5 does)"],
  "harnesses": [{"file": "C15_frames.cpp", "defines": {"quick": ["-DVH_STEPS=2"], "thorough": ["-DVH_STEPS=3"]}, "tiers": ["quick"],
     "entries": [{"entry": "vh_c15_frame"}, {"entry": "vh_c15_types"}]},
     {"file": "C15_frames.cpp", "defines": {"quick": ["-DVH_STEPS=2"], "thorough": ["-DVH_STEPS=3", "-DVH_NORD=9", "-DVH_STRBYTES=1", "-DVH_NADDR=1"]}, "tiers": ["thorough"],       # 3 steps: sliced by the first two operations; single cells + complete rows in every order, strings <= 1 byte
     "entries": [{"entry": "vh_c15_frame", "label": "vh_c15_frame.o%d.o%d" % (a, b), "fix": {"op#0": a, "op#1": b}} for a in range(5) for b in range(5) if not (a == 0 and b in (1, 2))]
              + [{"entry": "vh_c15_frame", "label": "vh_c15_frame.o0.o%d.o%d" % (b, c), "fix": {"op#0": 0, "op#1": b, "op#2": c}} for b in (1, 2) for c in range(5)]      # the two widest slices once more by the third operation
              + [{"entry": "vh_c15_types"}]}]},
 "C14": {
  "explanation": "Full stack on the HDF5 model: for each of the 7 value types a property is driven through a bounded history of assign (length 0..3, symbolic payloads over the full value range incl. NaN/inf/extremes, strings of 0..2 symbolic bytes) / clear / unit / uncertainty / wrong-type assignment, and values(), valueCount(), dataType(), unit(), uncertainty() are compared with the last assignment after every step and after reopen.",
  "bounds": {"quick": {"history_steps": 2, "vector_length": "0..3", "string_bytes": "0..2"}, "thorough": {"history_steps": 3, "vector_length": "0..3", "string_bytes": "0..1"}},
  "outside": ["vector lengths above the bound (the statement's 0..64)", "long strings", "old-style (< 1.1.1) compound values"],
  "assumptions": ["libhdf5 replaced by h5model (same-type element copy, vlen strings)"],
  "harnesses": [{"file": "C14_props.cpp", "defines": {"quick": ["-DVH_STEPS=2", "-DVH_MAXLEN=3"], "thorough": ["-DVH_STEPS=3", "-DVH_MAXLEN=3", "-DVH_STRBYTES=1"]}, "tiers": ["quick"],
     "entries": [{"entry": "vh_c14_values", "label": "vh_c14_values.t%d" % t, "fix": {"type": t}} for t in range(7)] + [{"entry": "vh_c14_create", "label": "vh_c14_create.t%d" % t, "fix": {"type": t}} for t in range(7)]},
     # thorough: 3 steps, length <= 4; the two types with symbolic forks per value (double: NaN / non-NaN, string: length) are sliced by their first two operations
     {"file": "C14_props.cpp", "defines": {"quick": ["-DVH_STEPS=2", "-DVH_MAXLEN=3"], "thorough": ["-DVH_STEPS=3", "-DVH_MAXLEN=3", "-DVH_STRBYTES=1"]}, "tiers": ["thorough"],
     "entries": [{"entry": "vh_c14_values", "label": "vh_c14_values.t%d" % t, "fix": {"type": t}} for t in range(1, 6)]
              + [{"entry": "vh_c14_values", "label": "vh_c14_values.t%d.o%d.o%d" % (t, a, b), "fix": {"type": t, "op#0": a, "op#1": b}} for t in (0, 6) for a in range(5) for b in range(5)]
              + [{"entry": "vh_c14_create", "label": "vh_c14_create.t%d" % t, "fix": {"type": t}} for t in range(7)]}]},
 "C13": {
  "explanation": "Full stack on the HDF5 model: bounded append histories over the five descriptor kinds with symbolic interval, offset and tick values (all non-NaN doubles), read back through getDimension/dimensions()/as*Dimension after every step and after reopen; setters on existing descriptors; alias dimension mirrored in both directions with symbolic data.",
  "bounds": {"quick": {"append_steps": 2, "ticks": "0..3 symbolic", "labels": "0..2", "data_frame_column": "0..4 of 3"}, "thorough": {"append_steps": 3}},
  "outside": ["NaN intervals/offsets/ticks", "arrays of other rank/element type for the append histories", "interleavings of alias writes longer than the scripted one"],
  "assumptions": ["libhdf5 replaced by h5model", "unit grammar replaced by an equivalent hand-written matcher"],
  "harnesses": [{"file": "C13_dims.cpp", "defines": {"quick": ["-DVH_STEPS=2"], "thorough": ["-DVH_STEPS=3"]},
     "entries": [{"entry": "vh_c13_append", "label": "vh_c13_append.k%d.k%d" % (a, b), "fix": {"kind#0": a, "kind#1": b}} for a in range(5) for b in range(5)]
               + [{"entry": "vh_c13_modify"}, {"entry": "vh_c13_alias"}]
               + [{"entry": "vh_c13_alias_history", "label": "vh_c13_alias_history.o%d" % o, "fix": {"op#0": o}} for o in range(4)]}]},
 "C11": {
  "technique": "symbolic execution of the real code's LLVM IR (nixsym) over a finite family of histories: every choice is forked and executed on the full stack, the engine's memory-safety queries go to z3; the property data here is concrete, so the solver's share is the feasibility and safety queries",
  "explanation": "Full stack on the HDF5 model's identifier table: with handles to every entity kind (and copies, a dimension, a DataView) alive or dropped, close() must leave zero open HDF5 identifiers of the file, isOpen() false, a second close a no-op; each of 16 uses of a stale handle must throw without touching or re-opening the file; the path can be truncated and reused afterwards.",
  "bounds": {"live_handles": "all of harness/world.hpp + dimension + DataView, or none; 3 or 70 arrays plus half as many sections held in vectors", "stale_uses": 16, "sessions": "one, or a writer and a reader on the same path closed in either order"},
  "outside": ["completeness of bytes on disk after flush/close, reopen after SIGKILL: crash points inside libhdf5/OS cannot be encoded (not applicable part)", "other processes"],
  "assumptions": ["libhdf5 replaced by h5model (identifier reference counts, weak file close degree)"],
  "harnesses": [{"file": "C11_close.cpp", "entries": [{"entry": "vh_c11_close", "label": "vh_c11_close.d%d" % d, "fix": {"drop": d}} for d in range(2)] + [{"entry": "vh_c11_many", "label": "vh_c11_many.m%d" % m, "fix": {"many": m}} for m in range(2)] + [{"entry": "vh_c11_two_sessions"}]}]},
 "C12": {
  "technique": "symbolic execution of the real code's LLVM IR (nixsym) with z3; dependence of ids on the entropy source decided as a differential over fixed draws (symbolic draw: no verdict within budget)",
  "explanation": "K: the real util::createId (boost mt19937 seeded from time(), basic_random_generator, uuids::to_string) executed in the engine: first three ids well-formed version-4 UUIDs and distinct. S: in the world file every entity id and the file id is well formed; across 17 operations (re-create by name, modify, replace, delete+create, reopen) no surviving entity's id changes, new entities get fresh ids, forceId changes only the file id.",
  "bounds": {"operations": 17, "ids_checked": "all entities of harness/world.hpp", "createId": "first 3 calls, time() concrete"},
  "outside": ["absence of collisions between independently seeded generators / other processes (probabilistic; the generator is seeded with time(0) only: see DESIGN.md)", "all 2^128 raw values of to_string"],
  "assumptions": ["S entries use the counter-based createId replacement (ids unique by construction); the K entry runs the real one"],
  "harnesses": [{"file": "C12_ids.cpp", "entries": [{"entry": "vh_c12_real_createid", "no_replace": ["createId"],
        "require_natives": [{"symbol": "random_device", "msg": "createId() consults no entropy source besides time(): processes started in the same second generate identical ids", "loc": "src/util/util.cpp createId"}]},
        {"entry": "vh_c12_entropy", "label": "vh_c12_entropy.draw0", "no_replace": ["createId"], "fix": {"entropy": 0}, "distinct_trace": "id"},
        {"entry": "vh_c12_entropy", "label": "vh_c12_entropy.draw1", "no_replace": ["createId"], "fix": {"entropy": 1}, "distinct_trace": "id"},
        {"entry": "vh_c12_entropy", "label": "vh_c12_entropy.draw2", "no_replace": ["createId"], "fix": {"entropy": 65536}, "distinct_trace": "id"},
        {"entry": "vh_c12_stable"}]}]},
 "C09": {
  "technique": "symbolic execution of the real code's LLVM IR (nixsym) over a finite family of histories: every choice is forked and executed on the full stack, the engine's memory-safety queries go to z3; the property data here is concrete, so the solver's share is the feasibility and safety queries",
  "explanation": "Full stack on the HDF5 model, which counts every mutation of a file and enforces the access intent: a library-produced file is opened ReadOnly, read through every getter, each of 40 mutating API calls is attempted, the file is closed - the mutation counter must never move and every call must throw; ReadWrite preserves the observation; Overwrite yields an empty valid file; absent path / plain HDF5 file / files that are not HDF5 at all (empty or arbitrary bytes) are refused and left untouched; the real FileHDF5::fileExists runs over a source-level std::ifstream stand-in (rt/vrt_fstream.hpp). Header defects (format, version, id) are decided in C10.",
  "bounds": {"mutating_calls": 40, "file": "harness/world.hpp", "modes": 3},
  "outside": ["'not a single byte changes' on a real file: that is libhdf5 honouring H5F_ACC_RDONLY", "non-HDF5 files", "compression defaults (recorded only)"],
  "assumptions": ["libhdf5 replaced by h5model; boost::filesystem::exists and FileHDF5::fileExists answered by the model's file table"],
  "harnesses": [{"file": "C09_modes.cpp", "entries": [{"entry": "vh_c09_readonly", "label": "vh_c09_readonly.op%d" % o, "fix": {"op": o}} for o in range(40)]
        + [{"entry": "vh_c09_readwrite_overwrite", "label": "vh_c09_readwrite_overwrite.c%d" % c, "fix": {"case": c}} for c in range(5)]}]},
 "C04": {
  "technique": "symbolic execution of the real code's LLVM IR (nixsym) over a finite family of histories: every choice is forked and executed on the full stack, the engine's memory-safety queries go to z3; the property data here is concrete, so the solver's share is the feasibility and safety queries",
  "explanation": "Full stack on the HDF5 model: in the fully linked world file one of 22 entities (every kind, including link targets with several holders and subtree roots) is deleted by name, by id or by handle; every entity is then re-collected through the public getters and compared with the pre-state: deleted set unreachable, survivors' attributes/data identical, their link lists equal to the old ones minus links into the deleted set, also after reopen.",
  "bounds": {"victims": 22, "ways": ["name", "id", "handle"], "graph": "harness/world.hpp (one target linked from up to 3 holders; source/section subtrees of depth 2)"},
  "outside": ["other link graphs", "links created after a reopen", "data-frame dimensions as holders"],
  "assumptions": ["libhdf5 replaced by h5model (hard-link counts, H5Iget_name semantics as validated by nix's test-suite)"],
  "harnesses": [{"file": "C04_delete.cpp", "entries": [{"entry": "vh_c04_delete", "label": "vh_c04_delete.v%d" % v, "fix": {"victim": v}} for v in range(23)]}]},
 "C08": {
  "technique": "symbolic execution of the real code's LLVM IR (nixsym) over a finite family of histories: every choice is forked and executed on the full stack, the engine's memory-safety queries go to z3; the property data here is concrete, so the solver's share is the feasibility and safety queries",
  "explanation": "Full stack on the HDF5 model: on a fully linked file one call from a menu of 51 calls the API must reject (each class of invalid argument the property names) is attempted; if it throws, the complete observation of the file (every public getter, data included) must equal the observation taken before the call, also after close+reopen.",
  "bounds": {"rejected_call_menu": 51, "file_state": "the fixed fully linked world of harness/world.hpp", "prefix_history": 0},
  "outside": ["file states other than the world file (the front-end argument checks are state-independent; back-end ones are exercised on this state)", "rejections caused by libhdf5 I/O errors"],
  "assumptions": ["libhdf5 replaced by h5model", "unit grammar (boost::regex) replaced by a hand-written matcher of the same expressions"],
  "harnesses": [{"file": "C08_reject.cpp", "entries": [{"entry": e, "label": "%s.op%d" % (e, o), "fix": {"op": o}} for e in ("vh_c08_reject", "vh_c08_reject_reopen") for o in range(51)]}]},
 "C02": {
  "technique": "symbolic execution of the real code's LLVM IR (nixsym) over a finite family of histories: every choice is forked and executed on the full stack, the engine's memory-safety queries go to z3; the property data here is concrete, so the solver's share is the feasibility and safety queries",
  "explanation": "Full stack on the HDF5 model: a fully linked file (blocks, arrays with every dimension kind, data frame, tag, multi-tag, features, group, source and section trees, properties, metadata/section links) is mutated by a bounded history from a 43-entry menu (incl. alternating use of two handles to the same entity); handles held since creation must agree with freshly fetched ones with symbolic payloads, observed through every public getter, closed, reopened (ReadOnly and ReadWrite) and observed again; the two observations must be byte-identical.",
  "bounds": {"quick": {"history_steps": 1, "menu": 43, "payload": "symbolic doubles"}, "thorough": {"history_steps": 2, "intermediate_reopen": True}},
  "outside": ["that libhdf5 persists what it was given (bytes on disk, other processes)", "histories longer than the bound", "nesting depth > 4"],
  "assumptions": ["libhdf5 replaced by h5model; close() destroys every nix object, reopen builds fresh ones on the model's file table"],
  "harnesses": [{"file": "C02_reopen.cpp", "defines": {"quick": ["-DVH_STEPS=1"], "thorough": ["-DVH_STEPS=2"]},
     "entries": [{"entry": e, "label": "%s.op%d" % (e, o), "fix": {"op#0": o}} for e in ("vh_c02_reopen_ro", "vh_c02_reopen_rw") for o in range(43)]}]},
 "C03": {
  "explanation": "Full stack (front-end + backend/hdf5 + h5x) on the HDF5 model: bounded create/delete histories per container kind, checked after every step and after close+reopen against a reference list in creation order.",
  "bounds": {"quick": {"history_steps": 3, "names": ["a", "b", "UUID-shaped", "", "a/b", "1 symbolic char in {a,b,c,/}", "(thorough: also 'A', 'a ', '..')"], "containers": "11 + 3 link containers (tag references, group members, entity sources over nested sources)"},
             "thorough": {"history_steps": 4}},
  "outside": ["names longer than the candidates / non-ASCII UTF-8", "HDF5's own creation-order index (modelled)", "features as a container (no names; covered by C04/C02 harnesses)", "multi-tag references and the other member kinds of groups (same code paths as tag references / group data arrays)", "names of sources attached to an entity (that API is id- and handle-based; decided: count/index/id/has/enumeration over nested sources incl. deletion of an ancestor, 3 steps)"],
  "assumptions": ["libhdf5 replaced by h5model", "createId replaced by a counter-based UUID generator (ids unique by construction)"],
  "harnesses": [{"file": "C03_names.cpp", "defines": {"quick": ["-DVH_STEPS=3", "-DVH_NAMES=6"], "thorough": ["-DVH_STEPS=4", "-DVH_NAMES=9"]},
     "entries": [{"entry": e} for e in ("vh_c03_blocks", "vh_c03_file_sections", "vh_c03_sub_sections", "vh_c03_properties", "vh_c03_block_sources", "vh_c03_sub_sources",
                                         "vh_c03_data_arrays", "vh_c03_tags", "vh_c03_multi_tags", "vh_c03_groups", "vh_c03_data_frames",
                                         "vh_c03_tag_references", "vh_c03_group_members")]
               + [{"entry": "vh_c03_nested_entity_sources", "label": "vh_c03_nested_entity_sources.o%d" % o, "fix": {"op#0": o}} for o in range(6)]}]},
 "C10": {
  "explanation": "K: FormatVersion operators with six/nine symbolic 32-bit ints (complete over all 2^96 pairs). S: real File::open -> FileHDF5::FileHDF5 -> checkHeader on the HDF5 model; the file's header (format string, version triple, id) is symbolic.",
  "bounds": {"version_components": "full 32-bit range, symbolic", "modes": ["ReadOnly", "ReadWrite"], "force": [False, True], "format": ["nix", "other", "missing"], "version/id attribute": "present or missing"},
  "outside": ["bytes on disk (libhdf5)", "files whose version attribute is not a 3-vector of ints"],
  "assumptions": ["libhdf5 replaced by h5model (validated against nix's 62 test executables)", "exception message formatting (iostream) inert"],
  "harnesses": [{"file": "C10_version.cpp", "entries": [{"entry": "vh_c10_order"}, {"entry": "vh_c10_index"}, {"entry": "vh_c10_gate"}]}]},
 "C07": {
  "explanation": "Kernel tier: the four index kernels of src/Dimensions.cpp are called directly with symbolic position, tick values, counts and match rule; the oracle is the documented rule stated against the axis (neighbours of the answer). S tier (C07_overloads.cpp): the indexOf overload family (scalar, pair, explicit-parameter, vector, deprecated) of the four dimension classes on a real file with symbolic start/end, over contract kernels: pair rule, validity rule and element-wise agreement of the overloads.",
  "bounds": {"quick": {"range_ticks": "0..3 symbolic strictly ascending doubles, any non-NaN position", "set_labels": "0..3", "df_rows": "1..2^40 symbolic", "positions_set_df": "|p| < 1e15",
                       "sampled": "(interval,offset)=(1,0); index <= 255; position anywhere in [x_0-4*interval, x_255]"},
             "thorough": {"range_ticks": "0..4", "set_labels": "0..4", "sampled": "see entries"}},
  "outside": ["symbolic sampling interval / offset", "sample indices above the stated bound", "NaN positions (no-crash query only)", "|p| >= 1e15 for set/data-frame (C16)"],
  "assumptions": ["axis strictly ascending", "operator new never fails"],
  "harnesses": [
     {"file": "C07_index.cpp", "defines": {"quick": ["-DVH_RANGE_MAXTICKS=3", "-DVH_SET_MAXLABELS=3", "-DVH_IMAX=255"], "thorough": ["-DVH_RANGE_MAXTICKS=4", "-DVH_SET_MAXLABELS=4", "-DVH_IMAX=255"]},
      "entries": [{"entry": "vh_c07_range"}, {"entry": "vh_c07_range_nan"}]
                 + [{"entry": e, "label": "%s.m%d" % (e, m), "fix": {"match": m}} for e in ("vh_c07_set", "vh_c07_df", "vh_c07_sampled_any") for m in range(5)]
                 + [{"entry": "vh_c07_sampled_roundtrip"}]},
     {"file": "C07_overloads.cpp", "defines": {"quick": ["-DVH_MAXEXT=6"], "thorough": ["-DVH_MAXEXT=10"]},
      "entries": [{"entry": "vh_c07_overloads", "label": "vh_c07_overloads.k%d.m%d" % (k, m), "fix": {"kind": k, "mode": m}} for k in range(4) for m in range(2)]},
  ] + [
     {"file": "C07_index.cpp", "defines": {"quick": ["-DVH_RANGE_MAXTICKS=3", "-DVH_SET_MAXLABELS=3", "-DVH_IMAX=%d" % qmax, "-DVH_INTERVAL=%s" % iv, "-DVH_OFFSET=%s" % off],
                                           "thorough": ["-DVH_RANGE_MAXTICKS=3", "-DVH_SET_MAXLABELS=3", "-DVH_IMAX=%d" % tmax, "-DVH_INTERVAL=%s" % iv, "-DVH_OFFSET=%s" % off]},
      "tiers": tiers,
      "entries": [{"entry": "vh_c07_sampled_roundtrip", "label": "vh_c07_sampled_roundtrip.%s.m%d" % (tag, m), "fix": {"match": m}, "limits": {"quick": {"timeout": 900, "assert_ms": 600000}, "thorough": {"timeout": 3000, "assert_ms": 2400000}}} for m in range(5)]}
     for (tag, iv, off, qmax, tmax, tiers) in (("iv0.1", "0.1", "0.0", 63, 10000, ["quick", "thorough"]), ("iv0.5o-1", "0.5", "-1.0", 255, 10000, ["quick", "thorough"]),
                                              ("iv0.001", "0.001", "0.0", 255, 10000, ["thorough"]), ("iv1_3", "(1.0/3.0)", "0.0", 255, 10000, ["thorough"]),
                                              ("iv3o100.3", "3.0", "100.3", 255, 10000, ["thorough"]), ("iv0.25o0.05", "0.25", "0.05", 255, 10000, ["thorough"]))
  ]},
 "T00": {"harnesses": [
     {"file": "t_smoke.cpp", "entries": [{"entry": "vh_smoke1"}, {"entry": "vh_smoke2"}, {"entry": "vh_smoke_fp"}]},
     {"file": "t_s_smoke.cpp", "entries": [{"entry": "vh_s_smoke1"}]},
 ]},
}

# ---------------------------------------------------------------------------------------------------------------------
# Thorough tiers that were NOT run to completion on the final tree within the time available (DESIGN.md section 9) fall
# back to the bounds of the quick tier, which was: a registered command has to finish with a verdict.  The deeper
# configurations stay in the definitions above; removing a property from this list re-enables its own thorough bounds.
THOROUGH_AS_QUICK = ["C01", "C03", "C05", "C06", "C07", "C15", "C17", "C18", "C20"]
for _pid in THOROUGH_AS_QUICK:
    _s = SPECS[_pid]
    for _h in _s["harnesses"]:
        if "defines" in _h and "quick" in _h["defines"]:
            _h["defines"] = dict(_h["defines"], thorough=_h["defines"]["quick"])
        _t = _h.get("tiers")
        if _t is not None:
            _h["tiers"] = ["quick", "thorough"] if "quick" in _t else []
        for _e in _h["entries"]:
            _te = _e.get("tiers")
            if _te is not None:
                _e["tiers"] = ["quick", "thorough"] if "quick" in _te else []
    _b = _s.get("bounds", {})
    if isinstance(_b, dict) and "quick" in _b:
        _s["bounds"] = dict(_b, thorough=dict(_b["quick"], note="same bounds as the quick tier: the deeper configuration was not run to completion on the final tree"))
