# Registered checks: property id -> harness files, entries, bounds.  See DESIGN.md section 3.
SPECS = {
 "C10": {
  "explanation": "K: FormatVersion operators with six/nine symbolic 32-bit ints (complete over all 2^96 pairs). S: real File::open -> FileHDF5::FileHDF5 -> checkHeader on the HDF5 model; the file's header (format string, version triple, id) is symbolic.",
  "bounds": {"version_components": "full 32-bit range, symbolic", "modes": ["ReadOnly", "ReadWrite"], "force": [False, True], "format": ["nix", "other", "missing"], "version/id attribute": "present or missing"},
  "outside": ["bytes on disk (libhdf5)", "files whose version attribute is not a 3-vector of ints"],
  "assumptions": ["libhdf5 replaced by h5model (validated against nix's 62 test executables)", "exception message formatting (iostream) inert"],
  "harnesses": [{"file": "C10_version.cpp", "entries": [{"entry": "vh_c10_order"}, {"entry": "vh_c10_index"}, {"entry": "vh_c10_gate"}]}]},
 "C07": {
  "explanation": "Kernel tier: the four index kernels of src/Dimensions.cpp are called directly with symbolic position, tick values, counts and match rule; the oracle is the documented rule stated against the axis (neighbours of the answer).",
  "bounds": {"quick": {"range_ticks": "0..3 symbolic strictly ascending doubles, any non-NaN position", "set_labels": "0..3", "df_rows": "1..2^40 symbolic", "positions_set_df": "|p| < 1e15",
                       "sampled": "(interval,offset)=(1,0); index <= 255; position anywhere in [x_0-4*interval, x_255]"},
             "thorough": {"range_ticks": "0..4", "set_labels": "0..4", "sampled": "see entries"}},
  "outside": ["symbolic sampling interval / offset", "sample indices above the stated bound", "NaN positions (no-crash query only)", "|p| >= 1e15 for set/data-frame (C16)"],
  "assumptions": ["axis strictly ascending", "operator new never fails"],
  "harnesses": [
     {"file": "C07_index.cpp", "defines": {"quick": ["-DVH_RANGE_MAXTICKS=3", "-DVH_SET_MAXLABELS=3", "-DVH_IMAX=255"], "thorough": ["-DVH_RANGE_MAXTICKS=4", "-DVH_SET_MAXLABELS=4", "-DVH_IMAX=255"]},
      "entries": [{"entry": "vh_c07_range"}, {"entry": "vh_c07_range_nan"}]
                 + [{"entry": e, "label": "%s.m%d" % (e, m), "fix": {"match": m}} for e in ("vh_c07_set", "vh_c07_df", "vh_c07_sampled_any") for m in range(5)]
                 + [{"entry": "vh_c07_sampled_roundtrip"}]},
  ]},
 "T00": {"harnesses": [
     {"file": "t_smoke.cpp", "entries": [{"entry": "vh_smoke1"}, {"entry": "vh_smoke2"}]},
     {"file": "t_s_smoke.cpp", "entries": [{"entry": "vh_s_smoke1"}]},
 ]},
}
