# Registered checks: property id -> harness files, entries, bounds.  See DESIGN.md section 3.
SPECS = {
 "C08": {
  "explanation": "Full stack on the HDF5 model: on a fully linked file one call from a menu of 46 calls the API must reject (each class of invalid argument the property names) is attempted; if it throws, the complete observation of the file (every public getter, data included) must equal the observation taken before the call, also after close+reopen.",
  "bounds": {"rejected_call_menu": 46, "file_state": "the fixed fully linked world of harness/world.hpp", "prefix_history": 0},
  "outside": ["file states other than the world file (the front-end argument checks are state-independent; back-end ones are exercised on this state)", "rejections caused by libhdf5 I/O errors"],
  "assumptions": ["libhdf5 replaced by h5model", "unit grammar (boost::regex) replaced by a hand-written matcher of the same expressions"],
  "harnesses": [{"file": "C08_reject.cpp", "entries": [{"entry": "vh_c08_reject"}, {"entry": "vh_c08_reject_reopen"}]}]},
 "C02": {
  "explanation": "Full stack on the HDF5 model: a fully linked file (blocks, arrays with every dimension kind, data frame, tag, multi-tag, features, group, source and section trees, properties, metadata/section links) is mutated by a bounded history from a 34-entry menu with symbolic payloads, observed through every public getter, closed, reopened (ReadOnly and ReadWrite) and observed again; the two observations must be byte-identical.",
  "bounds": {"quick": {"history_steps": 1, "menu": 34, "payload": "symbolic doubles"}, "thorough": {"history_steps": 2, "intermediate_reopen": True}},
  "outside": ["that libhdf5 persists what it was given (bytes on disk, other processes)", "histories longer than the bound", "nesting depth > 4"],
  "assumptions": ["libhdf5 replaced by h5model; close() destroys every nix object, reopen builds fresh ones on the model's file table"],
  "harnesses": [{"file": "C02_reopen.cpp", "defines": {"quick": ["-DVH_STEPS=1"], "thorough": ["-DVH_STEPS=2"]},
     "entries": [{"entry": "vh_c02_reopen_ro"}, {"entry": "vh_c02_reopen_rw"}]}]},
 "C03": {
  "explanation": "Full stack (front-end + backend/hdf5 + h5x) on the HDF5 model: bounded create/delete histories per container kind, checked after every step and after close+reopen against a reference list in creation order.",
  "bounds": {"quick": {"history_steps": 3, "names": ["a", "b", "A", "a ", "..", "UUID-shaped", "", "a/b", "1 symbolic char in {a,b,c,/}"], "containers": 11},
             "thorough": {"history_steps": 4}},
  "outside": ["names longer than the candidates / non-ASCII UTF-8", "HDF5's own creation-order index (modelled)", "features, tag references, group members, entity sources as containers (covered by C04/C02 harnesses)"],
  "assumptions": ["libhdf5 replaced by h5model", "createId replaced by a counter-based UUID generator (ids unique by construction)"],
  "harnesses": [{"file": "C03_names.cpp", "defines": {"quick": ["-DVH_STEPS=3"], "thorough": ["-DVH_STEPS=4"]},
     "entries": [{"entry": e} for e in ("vh_c03_blocks", "vh_c03_file_sections", "vh_c03_sub_sections", "vh_c03_properties", "vh_c03_block_sources", "vh_c03_sub_sources",
                                         "vh_c03_data_arrays", "vh_c03_tags", "vh_c03_multi_tags", "vh_c03_groups", "vh_c03_data_frames")]}]},
 "C10": {
  "explanation": "K: FormatVersion operators with six/nine symbolic 32-bit ints (complete over all 2^96 pairs). S: real File::open -> FileHDF5::FileHDF5 -> checkHeader on the HDF5 model; the file's header (format string, version triple, id) is symbolic.",
  "bounds": {"version_components": "full 32-bit range, symbolic", "modes": ["ReadOnly", "ReadWrite"], "force": [False, True], "format": ["nix", "other", "missing"], "version/id attribute": "present or missing"},
  "outside": ["bytes on disk (libhdf5)", "files whose version attribute is not a 3-vector of ints"],
  "assumptions": ["libhdf5 replaced by h5model (validated against nix's 62 test executables)", "exception message formatting (iostream) inert"],
  "harnesses": [{"file": "C10_version.cpp", "entries": [{"entry": "vh_c10_order"}, {"entry": "vh_c10_index"}, {"entry": "vh_c10_gate"}]}]},
 "C07": {
  "explanation": "Kernel tier: the four index kernels of src/Dimensions.cpp are called directly with symbolic position, tick values, counts and match rule; the oracle is the documented rule stated against the axis (neighbours of the answer).",
  "bounds": {"quick": {"range_ticks": "0..3 symbolic strictly ascending doubles, any non-NaN position", "set_labels": "0..3", "df_rows": "1..2^40 symbolic", "positions_set_df": "|p| < 1e15",
                       "sampled": "(interval,offset)=(1,0); index <= 255; position anywhere in [x_0-4*interval, x_255]"},
             "thorough": {"range_ticks": "0..4", "set_labels": "0..4", "sampled": "see entries"}},
  "outside": ["symbolic sampling interval / offset", "sample indices above the stated bound", "NaN positions (no-crash query only)", "|p| >= 1e15 for set/data-frame (C16)"],
  "assumptions": ["axis strictly ascending", "operator new never fails"],
  "harnesses": [
     {"file": "C07_index.cpp", "defines": {"quick": ["-DVH_RANGE_MAXTICKS=3", "-DVH_SET_MAXLABELS=3", "-DVH_IMAX=255"], "thorough": ["-DVH_RANGE_MAXTICKS=4", "-DVH_SET_MAXLABELS=4", "-DVH_IMAX=255"]},
      "entries": [{"entry": "vh_c07_range"}, {"entry": "vh_c07_range_nan"}]
                 + [{"entry": e, "label": "%s.m%d" % (e, m), "fix": {"match": m}} for e in ("vh_c07_set", "vh_c07_df", "vh_c07_sampled_any") for m in range(5)]
                 + [{"entry": "vh_c07_sampled_roundtrip"}]},
  ]},
 "T00": {"harnesses": [
     {"file": "t_smoke.cpp", "entries": [{"entry": "vh_smoke1"}, {"entry": "vh_smoke2"}]},
     {"file": "t_s_smoke.cpp", "entries": [{"entry": "vh_s_smoke1"}]},
 ]},
}
