// C15 — DataFrame cells round trip through row, cell and column access (full stack on the HDF5 model, compound datasets)
#include "world.hpp"
using namespace nix;
using namespace vh;

#ifndef VH_STEPS
#define VH_STEPS 2
#endif
#ifndef VH_NADDR
#define VH_NADDR 3
#endif
#ifndef VH_NORD
#define VH_NORD 15
#endif
#ifndef VH_STRBYTES
#define VH_STRBYTES 2
#endif
#define NCOL 3
#define MAXROW 3

// schema: Int64 | String | Double (a second schema covers Bool | Int32 | UInt32 | UInt64)
struct CellV { int64_t i; std::string s; double d; };
static bool same_d(double a, double b) { uint64_t p, q; memcpy(&p, &a, 8); memcpy(&q, &b, 8); return p == q || (a != a && b != b); }

static void check_all(DataFrame &df, const std::vector<CellV> &ref) {
    nixsym_assert(df.rows() == ref.size(), "row count");
    std::vector<Column> cols = df.columns();
    nixsym_assert(cols.size() == NCOL && cols[0].name == "id" && cols[1].name == "name" && cols[2].name == "val" && cols[2].unit == "mV" &&
                  cols[0].dtype == DataType::Int64 && cols[1].dtype == DataType::String && cols[2].dtype == DataType::Double, "column schema (names, units, types, order) unchanged");
    for (size_t r = 0; r < ref.size(); r++) {
        std::vector<Variant> row = df.readRow(r);
        nixsym_assert(row.size() == NCOL, "readRow returns one value per column");
        nixsym_assert(row[0].type() == DataType::Int64 && row[0].get<int64_t>() == ref[r].i, "readRow: integer cell");
        nixsym_assert(row[1].type() == DataType::String && row[1].get<std::string>() == ref[r].s, "readRow: string cell");
        nixsym_assert(row[2].type() == DataType::Double && same_d(row[2].get<double>(), ref[r].d), "readRow: double cell");
        Cell c0 = df.readCell(r, 0), c2 = df.readCell(r, "val"), c1 = df.readCell(r, 1);
        nixsym_assert(c0.get<int64_t>() == ref[r].i && same_d(c2.get<double>(), ref[r].d) && c1.get<std::string>() == ref[r].s, "readCell agrees");
    }
    std::vector<int64_t> ci; df.readColumn(0, ci, true);
    std::vector<double> cd; df.readColumn("val", cd, true);
    std::vector<std::string> cs; df.readColumn(1, cs, true);
    nixsym_assert(ci.size() == ref.size() && cd.size() == ref.size() && cs.size() == ref.size(), "readColumn(resize) returns all rows");
    for (size_t r = 0; r < ref.size() && r < ci.size(); r++)
        nixsym_assert(ci[r] == ref[r].i && same_d(cd[r], ref[r].d) && cs[r] == ref[r].s, "readColumn agrees");
    if (ref.size() >= 2) { std::vector<int64_t> part; df.readColumn(0, part, true, 1); nixsym_assert(part.size() == ref.size() - 1 && part[0] == ref[1].i, "readColumn with offset"); }
}

extern "C" void vh_c15_frame() {
    nixsym_declare_reach("written"); nixsym_declare_reach("reopened");
    File f = File::open("c15.h5", FileMode::Overwrite);
    Block b = f.createBlock("b", "t");
    DataFrame df = b.createDataFrame("df", "t", {{"id", "", DataType::Int64}, {"name", "", DataType::String}, {"val", "mV", DataType::Double}});
    std::vector<CellV> ref;
    check_all(df, ref);
    for (int step = 0; step < VH_STEPS; step++) {
        uint32_t op = nixsym_choice("op", 5);
        if (op == 0) {                     // resize: surviving rows keep their values, new rows read as zero / ""
            uint32_t n = nixsym_choice("rows", MAXROW + 1);
            df.rows(n);
            ref.resize(n, CellV{0, "", 0.0});
        } else if (ref.empty()) continue;
        else if (op == 1) {
            uint32_t r = nixsym_choice("row", (uint32_t)ref.size());
            CellV v{(int64_t)nixsym_i64("i"), sym_name("s", VH_STRBYTES, "xy"), nixsym_f64("d")};
            df.writeRow(r, {Variant(v.i), Variant(v.s), Variant(v.d)});
            ref[r] = v; nixsym_reach("written");
        } else if (op == 2) {              // one call writing any non-empty subset of the cells of a row, in any order, addressed by index and/or name
            // single cells and complete rows first: the 3-step tier takes the first VH_NORD entries
            static const int ORD[15][3] = {{0,-1,-1},{1,-1,-1},{2,-1,-1},{0,1,2},{0,2,1},{1,0,2},{1,2,0},{2,0,1},{2,1,0},{0,1,-1},{1,0,-1},{0,2,-1},{2,0,-1},{1,2,-1},{2,1,-1}};
            static const char *CN[3] = {"id", "name", "val"};
            uint32_t r = nixsym_choice("row", (uint32_t)ref.size());
            uint32_t o = nixsym_choice("cells", VH_NORD);
            uint32_t addr = VH_NADDR == 1 ? 2u : nixsym_choice("addr", VH_NADDR);         // 0: by index, 1: by name, 2: alternating (the 3-step tier: alternating only)
            std::vector<Cell> cells; CellV nv = ref[r];
            for (int k = 0; k < 3 && ORD[o][k] >= 0; k++) {
                int c = ORD[o][k]; Variant v;
                if (c == 0) { nv.i = nixsym_i64("i"); v = Variant(nv.i); } else if (c == 1) { nv.s = sym_name("s", VH_STRBYTES, "xy"); v = Variant(nv.s); } else { nv.d = nixsym_f64("d"); v = Variant(nv.d); }
                bool byname = addr == 1 || (addr == 2 && (k & 1));
                cells.push_back(byname ? Cell(std::string(CN[c]), v) : Cell((unsigned)c, v));
            }
            if (cells.size() == 1 && addr == 0) df.writeCell(r, (unsigned)ORD[o][0], static_cast<const Variant &>(cells[0]));
            else df.writeCells(r, cells);
            ref[r] = nv;
        } else if (op == 3) {              // column write with offset/count
            uint32_t off = nixsym_choice("off", (uint32_t)ref.size());
            uint32_t cnt = 1 + nixsym_choice("cnt", (uint32_t)ref.size() - off);
            std::vector<double> vals; for (uint32_t i = 0; i < cnt; i++) vals.push_back(nixsym_f64("d"));
            df.writeColumn("val", vals, off, cnt);
            for (uint32_t i = 0; i < cnt; i++) ref[off + i].d = vals[i];
        } else {
            uint32_t off = nixsym_choice("off", (uint32_t)ref.size());
            std::vector<int64_t> vals = {(int64_t)nixsym_i64("i")};
            df.writeColumn(0, vals, off);
            ref[off].i = vals[0];
        }
        check_all(df, ref);
    }
    df = DataFrame(); b = none; f.close();
    File g = File::open("c15.h5", FileMode::ReadOnly);
    DataFrame d2 = g.getBlock("b").getDataFrame("df");
    check_all(d2, ref);
    nixsym_reach("reopened");
}

// the remaining cell types
extern "C" void vh_c15_types() {
    nixsym_declare_reach("done");
    File f = File::open("c15b.h5", FileMode::Overwrite);
    Block b = f.createBlock("b", "t");
    DataFrame df = b.createDataFrame("df", "t", {{"b", "", DataType::Bool}, {"i32", "", DataType::Int32}, {"u32", "", DataType::UInt32}, {"u64", "", DataType::UInt64}});
    df.rows(2);
    bool vb = nixsym_bool("b") != 0; int32_t vi = nixsym_i32("i32"); uint32_t vu = nixsym_u32("u32"); uint64_t vq = nixsym_u64("u64");
    df.writeRow(1, {Variant(vb), Variant(vi), Variant(vu), Variant(vq)});
    std::vector<Variant> r1 = df.readRow(1), r0 = df.readRow(0);
    nixsym_assert(r1[0].get<bool>() == vb && r1[1].get<int32_t>() == vi && r1[2].get<uint32_t>() == vu && r1[3].get<uint64_t>() == vq, "row of Bool/Int32/UInt32/UInt64 cells reads back");
    nixsym_assert(r0[0].get<bool>() == false && r0[1].get<int32_t>() == 0 && r0[2].get<uint32_t>() == 0 && r0[3].get<uint64_t>() == 0, "never written cells read as zero");
    std::vector<uint32_t> cu; df.readColumn("u32", cu, true);
    nixsym_assert(cu.size() == 2 && cu[1] == vu && cu[0] == 0, "column read of UInt32");
    bool threw = false; try { df.writeRow(0, {Variant(1.5), Variant(vi), Variant(vu), Variant(vq)}); } catch (const std::exception &) { threw = true; }
    nixsym_assert(threw, "a row whose cell types do not match the schema is rejected");
    nixsym_assert(df.readRow(0)[1].get<int32_t>() == 0, "and changes nothing");
    nixsym_reach("done");
}
