// C14 — metadata property values round trip with type, order, unit and uncertainty (full stack on the HDF5 model)
#include "world.hpp"
using namespace nix;
using namespace vh;

#ifndef VH_STRBYTES
#define VH_STRBYTES 2
#endif
#ifndef VH_STEPS
#define VH_STEPS 2
#endif
#ifndef VH_MAXLEN
#define VH_MAXLEN 3
#endif

static DataType type_of(uint32_t t) {
    switch (t) { case 0: return DataType::Bool; case 1: return DataType::Int32; case 2: return DataType::UInt32; case 3: return DataType::Int64;
                 case 4: return DataType::UInt64; case 5: return DataType::Double; default: return DataType::String; }
}
static Variant sym_value(uint32_t t) {
    switch (t) {
    case 0: return Variant(nixsym_bool("vb") != 0);
    case 1: return Variant((int32_t)nixsym_i32("vi32"));
    case 2: return Variant((uint32_t)nixsym_u32("vu32"));
    case 3: return Variant((int64_t)nixsym_i64("vi64"));
    case 4: return Variant((uint64_t)nixsym_u64("vu64"));
    case 5: return Variant(nixsym_f64("vf64"));
    default: return Variant(sym_name("vs", VH_STRBYTES, "ab\xc3"));      // empty, 1 or 2 bytes incl. a UTF-8 lead byte (3-step histories: at most 1 byte)
    }
}
static bool same_variant(const Variant &a, const Variant &b) {
    if (a.type() != b.type()) return false;
    switch (a.type()) {
    case DataType::Bool: return a.get<bool>() == b.get<bool>();
    case DataType::Int32: return a.get<int32_t>() == b.get<int32_t>();
    case DataType::UInt32: return a.get<uint32_t>() == b.get<uint32_t>();
    case DataType::Int64: return a.get<int64_t>() == b.get<int64_t>();
    case DataType::UInt64: return a.get<uint64_t>() == b.get<uint64_t>();
    case DataType::Double: { double x = a.get<double>(), y = b.get<double>(); uint64_t p, q; memcpy(&p, &x, 8); memcpy(&q, &y, 8); return p == q || (x != x && y != y); }   // bit-identical; any NaN reads back as NaN
    case DataType::String: return a.get<std::string>() == b.get<std::string>();
    default: return false;
    }
}
static bool g_assigned = false;   // before the first assignment / clear the stored values are unspecified by the property
static void check_prop(const Property &p, DataType dt, const std::vector<Variant> &last, const boost::optional<std::string> &unit, const boost::optional<double> &unc) {
    nixsym_assert(p.dataType() == dt, "property keeps its type");
    if (!g_assigned) goto attrs;
    nixsym_assert(p.valueCount() == last.size(), "value count follows the last assignment");
    {
    std::vector<Variant> v = p.values();
    nixsym_assert(v.size() == last.size(), "values() returns as many values as assigned");
    for (size_t i = 0; i < v.size() && i < last.size(); i++) nixsym_assert(same_variant(v[i], last[i]), "values() returns exactly the values last assigned, in order, with their type");
    }
attrs:
    nixsym_assert((bool)p.unit() == (bool)unit && (!unit || *p.unit() == *unit), "unit reads back");
    if (unc) { nixsym_assert((bool)p.uncertainty(), "uncertainty present"); double a = *p.uncertainty(), b = *unc; nixsym_assert(a == b || (a != a && b != b), "uncertainty reads back"); }
    else nixsym_assert(!p.uncertainty(), "no uncertainty");
}

extern "C" void vh_c14_values() {
    nixsym_declare_reach("assigned"); nixsym_declare_reach("reopened");
    File f = File::open("c14.h5", FileMode::Overwrite);
    Section s = f.createSection("s", "t");
    uint32_t t = nixsym_choice("type", 7);
    DataType dt = type_of(t);
    Property p = s.createProperty("p", dt);
    std::vector<Variant> last; boost::optional<std::string> unit; boost::optional<double> unc;
    check_prop(p, dt, last, unit, unc);
    for (int step = 0; step < VH_STEPS; step++) {
        uint32_t op = nixsym_choice("op", 5);
        if (op == 0) {                                  // assign / replace (shorter, longer, empty)
            uint32_t n = nixsym_choice("len", VH_MAXLEN + 1);
            std::vector<Variant> v;
            for (uint32_t i = 0; i < n; i++) v.push_back(sym_value(t));
            p.values(v); last = v; g_assigned = true; nixsym_reach("assigned");
        } else if (op == 1) { p.deleteValues(); last.clear(); g_assigned = true; }
        else if (op == 2) { if (nixsym_choice("unitnone", 2)) { p.unit(none); unit = boost::none; } else { p.unit("mV"); unit = std::string("mV"); } }
        else if (op == 3) { double u = nixsym_f64("unc"); p.uncertainty(u); unc = u; }
        else {                                          // a value of another type is rejected and changes nothing
            uint32_t t2 = (t + 1 + nixsym_choice("othertype", 6)) % 7;
            bool threw = false;
            try { p.values({sym_value(t2)}); } catch (const std::exception &) { threw = true; }
            nixsym_assert(threw, "values of a type different from the property's type are rejected");
        }
        check_prop(p, dt, last, unit, unc);
    }
    p = none; s = none; f.close();
    File g = File::open("c14.h5", FileMode::ReadOnly);
    check_prop(g.getSection("s").getProperty("p"), dt, last, unit, unc);
    nixsym_reach("reopened");
}

// creation with initial value(s): type taken from the value, values stored
extern "C" void vh_c14_create() {
    nixsym_declare_reach("done");
    File f = File::open("c14b.h5", FileMode::Overwrite);
    Section s = f.createSection("s", "t");
    uint32_t t = nixsym_choice("type", 7);
    uint32_t n = 1 + nixsym_choice("len", VH_MAXLEN);
    std::vector<Variant> v;
    for (uint32_t i = 0; i < n; i++) v.push_back(sym_value(t));
    Property p = n == 1 && nixsym_choice("single", 2) ? s.createProperty("p", v[0]) : s.createProperty("p", v);
    g_assigned = true;
    check_prop(p, type_of(t), v, boost::none, boost::none);
    p.definition("def");
    nixsym_assert(p.definition() && *p.definition() == "def", "definition reads back");
    // replacing the values by a longer vector than the property was created with (and by more than 8) changes the count accordingly
    std::vector<Variant> longer;
    uint32_t grow = nixsym_choice("grow", 2) == 0 ? n + 1 : 9;
    for (uint32_t i = 0; i < grow; i++) longer.push_back(i < n ? v[i] : v[0]);                 // the tail repeats the first (symbolic) value
    p.values(longer);
    check_prop(p, type_of(t), longer, boost::none, boost::none);
    nixsym_reach("done");
}
