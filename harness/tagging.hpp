// Shared set-up and oracle for the tag / multi-tag / slice retrieval harnesses (C05, C06, C17, C18).
#pragma once
#include "vh.hpp"
#include <cmath>

namespace vh {

#ifndef VH_MAXRANK
#define VH_MAXRANK 2
#endif
#ifndef VH_MAXEXT
#define VH_MAXEXT 3
#endif

// one axis of the referenced array: coordinates x_0 < x_1 < ... (concrete or symbolic doubles)
struct Axis { int kind; std::vector<double> x; bool eps_sensitive; };   // kind: 0 set, 1 sampled, 2 range, 3 set without labels

struct Arr { DataArray a; std::vector<Axis> ax; NDSize ext; };

// element (i,j) holds i*10+j (rank 1: i), so a returned block identifies its origin by content
inline Arr make_array(Block &b, const char *name, const char *prefix) {
    Arr r;
    uint32_t rank = 1 + nixsym_choice((std::string(prefix) + "rank").c_str(), VH_MAXRANK);
    r.ext = NDSize(rank, 1);
    for (uint32_t d = 0; d < rank; d++) r.ext[d] = 1 + nixsym_choice((std::string(prefix) + "n").c_str(), VH_MAXEXT);
    r.a = b.createDataArray(name, "t", DataType::Double, r.ext);
    std::vector<double> vals((size_t)r.ext.nelms());
    for (size_t i = 0; i < (size_t)r.ext[0]; i++) for (size_t j = 0; j < (rank == 2 ? (size_t)r.ext[1] : 1); j++) vals[rank == 2 ? i * (size_t)r.ext[1] + j : i] = (double)(i * 10 + j);
    r.a.setData(DataType::Double, vals.data(), r.ext, NDSize(rank, 0));
    for (uint32_t d = 0; d < rank; d++) {
        Axis ax; ax.kind = (int)nixsym_choice((std::string(prefix) + "kind").c_str(), 4);
        size_t n = (size_t)r.ext[d];
        if (ax.kind == 0) { std::vector<std::string> l; for (size_t i = 0; i < n; i++) l.push_back("l"); r.a.appendSetDimension(l); for (size_t i = 0; i < n; i++) ax.x.push_back((double)i); ax.eps_sensitive = true; }
        else if (ax.kind == 3) { r.a.appendSetDimension(); for (size_t i = 0; i < n; i++) ax.x.push_back((double)i); ax.eps_sensitive = true; }
        else if (ax.kind == 1) {
            // sampled axis with binary-exact parameters (general intervals are the kernel harness' subject, C07)
            uint32_t v = nixsym_choice((std::string(prefix) + "sampling").c_str(), 3);
            double iv = v == 0 ? 1.0 : v == 1 ? 0.5 : 1.0, off = v == 2 ? -1.0 : 0.0;
            r.a.appendSampledDimension(iv, "", "", off);
            for (size_t i = 0; i < n; i++) ax.x.push_back((double)i * iv + off);
            ax.eps_sensitive = true;
        } else {
            std::vector<double> t;
            for (size_t i = 0; i < n; i++) { double v = nixsym_f64((std::string(prefix) + "tick").c_str()); nixsym_assume(v == v && v > -1e300 && v < 1e300); if (i) nixsym_assume(t[i - 1] < v); t.push_back(v); }
            r.a.appendRangeDimension(t);
            ax.x = t; ax.eps_sensitive = false;
        }
        r.ax.push_back(ax);
    }
    return r;
}

// known finding C07-eps-zone seen through the composite functions: p within DBL_EPSILON of (but not on) an integer-spaced coordinate
inline bool near_not_on(double p, double step, double off) {
    double q = (p - off) / step;
    double xc = std::ceil(q) * step + off, xf = std::floor(q) * step + off;
    const double eps = 2.220446049250313e-16;
    return (xc != p && std::fabs(xc - p) <= eps) || (xf != p && std::fabs(xf - p) <= eps);
}
inline bool axis_eps_zone(const Axis &ax, double p) {
    if (!ax.eps_sensitive) return false;
    double step = ax.x.size() > 1 ? ax.x[1] - ax.x[0] : 1.0;
    if (ax.kind == 1 && ax.x.size() == 1) return near_not_on(p, 1.0, ax.x[0]) || near_not_on(p, 0.5, ax.x[0]);
    return near_not_on(p, step, ax.x[0]);
}

// The documented selection rule along one axis. Returns false if the selection is empty (=> out of bounds).
//   region [s, e] (inclusive) or [s, e) (exclusive); point == true: the single first element at or after s.
inline bool select_axis(const Axis &ax, double s, double e, bool inclusive, bool point, size_t &first, size_t &count) {
    size_t n = ax.x.size();
    if (point) {
        for (size_t i = 0; i < n; i++) if (ax.x[i] >= s) { first = i; count = 1; return true; }
        return false;
    }
    bool found = false; count = 0;
    for (size_t i = 0; i < n; i++) {
        bool in = ax.x[i] >= s && (inclusive ? ax.x[i] <= e : ax.x[i] < e);
        if (in) { if (!found) { first = i; found = true; } count++; }
    }
    return found;
}

// compare a DataView with the expected block of the array filled by make_array
inline void check_view(DataView &v, const Arr &r, const std::vector<size_t> &first, const std::vector<size_t> &count) {
    NDSize ve = v.dataExtent();
    size_t rank = r.ext.size();
    nixsym_assert(ve.size() == rank, "view has the rank of the data");
    if (ve.size() != rank) return;
    for (size_t d = 0; d < rank; d++) nixsym_assert(ve[d] == count[d], "view extent = number of selected elements per dimension");
    for (size_t d = 0; d < rank; d++) if (ve[d] != count[d]) return;
    std::vector<double> got((size_t)ve.nelms());
    v.getData(DataType::Double, got.data(), ve, NDSize(rank, 0));
    size_t k = 0;
    for (size_t i = 0; i < count[0]; i++) for (size_t j = 0; j < (rank == 2 ? count[1] : 1); j++) {
        double want = (double)((first[0] + i) * 10 + (rank == 2 ? first[1] + j : 0));
        nixsym_assert(got[k++] == want, "view returns exactly the selected elements");
    }
}

}  // namespace vh
