// Shared set-up, contract kernels and oracle for the retrieval harnesses (C05, C06, C17, C18).
#pragma once
#include "vh.hpp"
#include <cmath>
#include <nix/util/dataAccess.hpp>

#ifndef VH_MAXRANK
#define VH_MAXRANK 2
#endif
#ifndef VH_MAXEXT
#define VH_MAXEXT 3
#endif
#ifndef VH_NSAMPLING
#define VH_NSAMPLING 2
#endif
// sampled / unlabelled-set axes are unbounded; oracle and contract kernels look at their first VH_WINDOW coordinates
#define VH_WINDOW (VH_MAXEXT + 2)

// ---------------------------------------------------------------------------------------------------------------------
// Contract kernels.  The three index kernels that do floating-point arithmetic (getSampledIndex, getSetIndex,
// getDataFrameIndex) are decided on their own in C07.  In the composite harnesses a bit-blasted ceil/floor/div/fptoui
// per branch query makes exploration of rank >= 2 intractable (measured: 0.4 s per query, > 600 s for rank 1), so the
// *quick* tiers replace them by the relation C07 establishes: "the smallest / largest index whose coordinate
// offset + i*interval is >=, >, <=, < the position", decided by comparisons only.  Everything above the kernels -
// Dimension::indexOf pair logic, positionToIndex, scalePositions, getOffsetAndCount, dataSlice, DataView, the
// back-end - is the real code.  Jobs that list these names under "no_replace" run the real kernels instead.
// On an unbounded axis a position beyond coordinate VH_WINDOW-1 is outside the bound: the path is discarded.
// ---------------------------------------------------------------------------------------------------------------------
#define VH_VRT(m) __asm__("__vrt__" m) __attribute__((used))
namespace vrt_idx {
inline boost::optional<nix::ndsize_t> scan(double p, double off, double iv, nix::ndsize_t finite_n, nix::PositionMatch m) {
    using nix::PositionMatch;
    boost::optional<nix::ndsize_t> r;
    size_t K = finite_n ? (size_t)finite_n : (size_t)VH_WINDOW;
    if (m == PositionMatch::GreaterOrEqual || m == PositionMatch::Greater) {
        for (size_t i = 0; i < K; i++) {
            double x = (double)i * iv + off;
            if (m == PositionMatch::GreaterOrEqual ? x >= p : x > p) { r = (nix::ndsize_t)i; return r; }
        }
        if (!finite_n) nixsym_assume(false);
        return r;
    }
    if (m == PositionMatch::LessOrEqual || m == PositionMatch::Less) {
        for (size_t i = K; i-- > 0;) {
            double x = (double)i * iv + off;
            if (m == PositionMatch::LessOrEqual ? x <= p : x < p) { if (!finite_n && i == K - 1) nixsym_assume(false); r = (nix::ndsize_t)i; return r; }
        }
        return r;
    }
    for (size_t i = 0; i < K; i++) { double x = (double)i * iv + off; if (x == p) { r = (nix::ndsize_t)i; return r; } }
    if (!finite_n && !((double)(K - 1) * iv + off > p)) nixsym_assume(false);
    return r;
}
boost::optional<nix::ndsize_t> sampled(double position, double offset, double interval, nix::PositionMatch m) VH_VRT("_Z15getSampledIndexdddN3nix13PositionMatchE");
boost::optional<nix::ndsize_t> sampled(double position, double offset, double interval, nix::PositionMatch m) { return scan(position, offset, interval, 0, m); }
boost::optional<nix::ndsize_t> setidx(double position, std::vector<std::string> labels, nix::PositionMatch m) VH_VRT("_Z11getSetIndexdSt6vectorINSt7__cxx1112basic_stringIcSt11char_traitsIcESaIcEEESaIS5_EEN3nix13PositionMatchE");
boost::optional<nix::ndsize_t> setidx(double position, std::vector<std::string> labels, nix::PositionMatch m) { return scan(position, 0.0, 1.0, labels.size(), m); }
boost::optional<nix::ndsize_t> dfidx(double position, nix::ndsize_t rows, nix::PositionMatch m) VH_VRT("_Z17getDataFrameIndexdyN3nix13PositionMatchE");
boost::optional<nix::ndsize_t> dfidx(double position, nix::ndsize_t rows, nix::PositionMatch m) { return scan(position, 0.0, 1.0, rows, m); }
}

namespace vh {

// one axis of the referenced array.  x: the coordinates the oracle looks at - all of them for a finite axis (range ticks,
// labelled set, data-frame rows), the first VH_WINDOW for an unbounded one (sampled, set without labels).
struct Axis { int kind; bool unbounded; std::vector<double> x; double iv, off; };   // kind: 0 set+labels, 1 sampled, 2 range, 3 set, 4 data-frame
struct Arr { DataArray a; std::vector<Axis> ax; NDSize ext; };

static const double VH_SAMPLING[4][2] = {{1.0, 0.0}, {0.5, -1.0}, {0.1, 0.0}, {3.0, 100.25}};

// element (i,j,k) holds i*100+j*10+k, so a returned block identifies its origin by content
inline uint64_t elem_code(const size_t *idx, size_t rank) { uint64_t c = 0; for (size_t d = 0; d < 3; d++) c = c * 10 + (d < rank ? idx[d] : 0); return c; }

inline Arr make_array(Block &b, const char *name, const char *prefix, int maxrank = VH_MAXRANK) {
    Arr r;
    std::string pf(prefix);
    uint32_t rank = 1 + nixsym_choice((pf + "rank").c_str(), (uint32_t)maxrank);
    r.ext = NDSize(rank, 1);
    for (uint32_t d = 0; d < rank; d++) r.ext[d] = 1 + nixsym_choice((pf + "n").c_str(), VH_MAXEXT);
    r.a = b.createDataArray(name, "t", DataType::Double, r.ext);
    std::vector<double> vals((size_t)r.ext.nelms());
    size_t idx[3] = {0, 0, 0}, k = 0;
    for (idx[0] = 0; idx[0] < (size_t)r.ext[0]; idx[0]++)
        for (idx[1] = 0; idx[1] < (rank > 1 ? (size_t)r.ext[1] : 1); idx[1]++)
            for (idx[2] = 0; idx[2] < (rank > 2 ? (size_t)r.ext[2] : 1); idx[2]++) vals[k++] = (double)elem_code(idx, rank);
    r.a.setData(DataType::Double, vals.data(), r.ext, NDSize(rank, 0));
    for (uint32_t d = 0; d < rank; d++) {
        Axis ax; ax.kind = (int)nixsym_choice((pf + "kind").c_str(), 5); ax.iv = 1.0; ax.off = 0.0; ax.unbounded = false;
        size_t n = (size_t)r.ext[d];
        if (ax.kind == 0) { std::vector<std::string> l(n, "l"); r.a.appendSetDimension(l); for (size_t i = 0; i < n; i++) ax.x.push_back((double)i); }
        else if (ax.kind == 3) { r.a.appendSetDimension(); ax.unbounded = true; for (size_t i = 0; i < VH_WINDOW; i++) ax.x.push_back((double)i); }
        else if (ax.kind == 1) {
            uint32_t v = nixsym_choice((pf + "sampling").c_str(), VH_NSAMPLING);
            ax.iv = VH_SAMPLING[v][0]; ax.off = VH_SAMPLING[v][1]; ax.unbounded = true;
            SampledDimension sd = r.a.appendSampledDimension(ax.iv, "", "", ax.off);
            for (size_t i = 0; i < VH_WINDOW; i++) ax.x.push_back(sd.positionAt(i));
        } else if (ax.kind == 2) {
            std::vector<double> t;
            for (size_t i = 0; i < n; i++) { double v = nixsym_f64((pf + "tick").c_str()); nixsym_assume(v == v && v > -1e300 && v < 1e300); if (i) nixsym_assume(t[i - 1] < v); t.push_back(v); }
            r.a.appendRangeDimension(t);
            ax.x = t;
        } else {
            std::vector<Column> cols = {{"c0", "", DataType::Int64}};
            DataFrame df = b.createDataFrame(std::string(name) + "_df" + (char)('0' + d), "t", cols);
            df.rows(n);
            r.a.appendDataFrameDimension(df);
            for (size_t i = 0; i < n; i++) ax.x.push_back((double)i);
        }
        r.ax.push_back(ax);
    }
    return r;
}

// The documented selection rule along one axis, computed without branching so that it stays one solver term:
//   region [s, e] (inclusive) or [s, e) (exclusive); point: the single first element at or after s.
//   ok == the selection is non-empty and lies inside the stored data (indices < N).
struct Sel { uint64_t first, count; bool ok; };
inline Sel select_axis(const Axis &ax, uint64_t N, double s, double e, bool inclusive, bool point) {
    uint64_t first = 0, count = 0; bool found = false;
    for (size_t i = 0; i < ax.x.size(); i++) {
        bool ge = ax.x[i] >= s;
        bool upper = inclusive ? ax.x[i] <= e : ax.x[i] < e;
        bool in = ge & ((point & !found) | (!point & upper));
        first = (in & !found) ? (uint64_t)i : first;
        found = found | in;
        count += in ? 1u : 0u;
    }
    Sel r; r.first = first; r.count = count; r.ok = found & (first + count <= N);
    return r;
}
// whole axis
inline Sel select_all(uint64_t N) { Sel r; r.first = 0; r.count = N; r.ok = true; return r; }

// compare a DataView with the expected block (first/count may be solver terms; the view itself is concrete on every path)
inline void check_view(DataView &v, const Arr &r, const std::vector<Sel> &sel) {
    NDSize ve = v.dataExtent();
    size_t rank = r.ext.size();
    nixsym_assert(ve.size() == rank, "view has the rank of the data");
    if (ve.size() != rank) return;
    bool shape = true;
    for (size_t d = 0; d < rank; d++) shape = shape & (ve[d] == sel[d].count);
    nixsym_assert(shape, "view extent = number of selected elements in every dimension");
    std::vector<double> got((size_t)ve.nelms());
    if (got.empty()) return;
    v.getData(DataType::Double, got.data(), ve, NDSize(rank, 0));
    bool content = true;
    size_t idx[3] = {0, 0, 0}, k = 0;
    for (idx[0] = 0; idx[0] < (size_t)ve[0]; idx[0]++)
        for (idx[1] = 0; idx[1] < (rank > 1 ? (size_t)ve[1] : 1); idx[1]++)
            for (idx[2] = 0; idx[2] < (rank > 2 ? (size_t)ve[2] : 1); idx[2]++) {
                uint64_t want = 0;
                for (size_t d = 0; d < 3; d++) want = want * 10 + (d < rank ? sel[d].first + idx[d] : 0);
                content = content & ((uint64_t)got[k++] == want);
            }
    nixsym_assert(content, "view returns exactly the selected elements");
}

// known finding C07-eps-zone seen through the composite functions when the REAL kernels run (jobs built with -DVH_REAL_KERNELS):
// a position within DBL_EPSILON of, but not on, a coordinate of an evenly spaced axis is converted as if it were on it
inline bool near_not_on(double p, double step, double off) {
    double r = std::round((p - off) / step) * step + off;
    return (r != p) & (std::fabs(r - p) <= 2.220446049250313e-16);
}
inline bool axis_eps_zone(const Axis &ax, double p) {
#ifdef VH_REAL_KERNELS
    if (ax.kind == 2) return false;                       // range axes: comparisons only
    return near_not_on(p, ax.kind == 1 ? ax.iv : 1.0, ax.kind == 1 ? ax.off : 0.0);
#else
    (void)ax; (void)p; return false;                      // contract kernels are exact
#endif
}

inline double sym_pos(const char *name) { double p = nixsym_f64(name); nixsym_assume(p == p && p > -1e15 && p < 1e15); return p; }

}  // namespace vh
