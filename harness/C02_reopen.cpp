// C02 — close and reopen preserves the complete entity tree (full stack on the HDF5 model)
#include "world.hpp"
using namespace nix;
using namespace vh;

#ifndef VH_STEPS
#define VH_STEPS 1
#endif
#define N_OPS 43

static void mutate(World &w, uint32_t op) {
    double x = nixsym_f64("x");          // symbolic payload where a value is needed
    switch (op) {
    case 0:  w.f.createBlock("nb", "t"); break;
    case 1:  w.f.deleteBlock("blk2"); break;
    case 2:  w.f.createSection("ns", "t"); break;
    case 3:  w.f.deleteSection("sec2"); break;
    case 4:  w.sec.createSection("ns", "t").createSection("deep", "t").createSection("deeper", "t"); break;
    case 5:  w.sec.deleteSection("child"); break;
    case 6:  w.sec.createProperty("np", DataType::Double).values({Variant(x)}); break;
    case 7:  w.prop.values({Variant(x), Variant(1.0), Variant(x)}); break;
    case 8:  w.prop.deleteValues(); break;
    case 9:  w.prop.unit(none); w.prop.uncertainty(x); w.prop.definition("d"); break;
    case 10: w.sec.deleteProperty("temperature"); break;
    case 11: w.sec2.link(none); break;
    case 12: w.b.createDataArray("nd", "t", DataType::Double, NDSize({2, 2})).setData(DataType::Double, std::vector<double>{x, 1, 2, x}.data(), NDSize({2, 2}), NDSize({0, 0})); break;
    case 13: { std::vector<double> v = {x}; w.da1.setData(DataType::Double, v.data(), NDSize({1}), NDSize({2})); break; }
    case 14: w.da1.dataExtent(NDSize({6})); break;
    case 15: w.da1.polynomCoefficients({x, 2.0}); w.da1.expansionOrigin(x); break;
    case 16: w.da1.deleteDimensions(); w.da1.appendRangeDimension({1.0, 2.0, 3.0, 4.0}); break;
    case 17: w.da1.label(none); w.da1.unit(none); w.da1.definition("def"); w.da1.type("tt"); break;
    case 18: w.b.deleteDataArray("da1"); break;
    case 19: w.tag.position({x}); w.tag.extent(none); break;
    case 20: w.tag.removeReference(w.da1); w.tag.addReference(w.da2); break;
    case 21: w.tag.deleteFeature(w.tfeat); w.tag.createFeature(w.da2, LinkType::Tagged); break;
    case 22: w.b.deleteTag("tag"); break;
    case 23: w.mtag.extents(none); w.mtag.units({"s"}); break;
    case 24: w.b.deleteMultiTag("mtag"); break;
    case 25: w.grp.removeDataArray(w.da1); w.grp.addDataArray(w.da2); break;
    case 26: w.b.deleteGroup("grp"); break;
    case 27: w.src.createSource("c2", "t"); w.src.deleteSource("child"); break;
    case 28: w.b.deleteSource("src"); break;
    case 29: w.da1.removeSource(w.src); w.da1.addSource(w.src2); w.da1.addSource(w.src_child); break;
    case 30: w.da1.metadata(none); w.tag.metadata(w.sec_child); break;
    case 31: w.df.rows(3); w.df.writeCell(2, 2, Variant(x)); break;
    case 32: w.b.deleteDataFrame("df"); break;
    case 33: w.b.createTag("nt", "t", {x, 2.0}).units({"ms", "mV"}); break;
    // the same entity through two handles obtained by different routes, both already used ("warm"), mutated alternately
    case 34: { DataArray h2 = w.tag.getReference((size_t)0); h2.dimensionCount(); w.da1.dimensionCount(); h2.deleteDimensions(); w.da1.appendSampledDimension(0.25, "time", "ms"); break; }
    case 35: { DataArray h2 = w.grp.getDataArray((size_t)0); h2.dimensionCount(); w.da1.dimensionCount(); w.da1.deleteDimensions(); h2.appendSetDimension({"a", "b"}); w.da1.appendSetDimension(); break; }
    case 36: { Source h2 = w.b.getSource("src"); h2.sourceCount(); w.src.sourceCount(); w.src.deleteSource("child"); w.src.deleteSource("child2"); h2.createSource("c3", "t"); break; }
    case 37: { Section h2 = w.f.getSection("sec"); h2.propertyCount(); w.sec.propertyCount(); w.sec.deleteProperty("temperature"); h2.createProperty("q", Variant((int32_t)5)); h2.deleteSection("child"); w.sec.createSection("c4", "t"); break; }
    case 39: w.tag.referenceCount(); w.tag.references(std::vector<DataArray>{}); break;                  // bulk setters with empty / shorter lists
    case 40: w.mtag.referenceCount(); w.mtag.references(std::vector<DataArray>{}); w.mtag.sources(std::vector<Source>{}); break;
    case 41: w.da1.sourceCount(); w.da1.sources(std::vector<Source>{}); w.tag.sources(std::vector<Source>{w.src}); break;
    case 42: w.grp.dataArrayCount(); w.grp.dataArrays(std::vector<DataArray>{}); w.grp.tags(std::vector<Tag>{}); w.grp.multiTags(std::vector<MultiTag>{}); break;
    case 38: { Tag h2 = w.grp.getTag((size_t)0); h2.featureCount(); h2.referenceCount(); w.tag.deleteFeature(w.tfeat); w.tag.removeReference(w.da1); h2.createFeature(w.da2, LinkType::Indexed); h2.addReference(w.da2); break; }
    }
}

// every handle held since the file was built must show the same entity as a handle fetched now
static void coherent(World &w) {
    ObsOpt opt;
    Block fb = w.f.getBlock("blk");
    if (!fb) return;
#define VH_COH(held, freshexpr, obsfn, what) { auto fresh = freshexpr; if (fresh) { Obs a, b2; bool t1 = false, t2 = false; \
        try { obsfn(a, held, opt); } catch (const std::exception &) { t1 = true; } try { obsfn(b2, fresh, opt); } catch (const std::exception &) { t2 = true; } \
        nixsym_assert(t1 == t2 && a.s == b2.s, "a handle obtained earlier and a handle fetched now disagree about " what); } }
    VH_COH(w.da1, fb.getDataArray("da1"), obs_data_array, "the data array");
    VH_COH(w.da2, fb.getDataArray("da2"), obs_data_array, "the data array");
    VH_COH(w.tag, fb.getTag("tag"), obs_tag, "the tag");
    VH_COH(w.mtag, fb.getMultiTag("mtag"), obs_multi_tag, "the multi tag");
    VH_COH(w.grp, fb.getGroup("grp"), obs_group, "the group");
    { Source fresh = fb.getSource("src"); if (fresh) { Obs a, b2; bool t1 = false, t2 = false;
        try { obs_source(a, w.src, opt, 0); } catch (const std::exception &) { t1 = true; } try { obs_source(b2, fresh, opt, 0); } catch (const std::exception &) { t2 = true; }
        nixsym_assert(t1 == t2 && a.s == b2.s, "a handle obtained earlier and a handle fetched now disagree about the source"); } }
    { Section fresh = w.f.getSection("sec"); if (fresh) { Obs a, b2; bool t1 = false, t2 = false;
        try { obs_section(a, w.sec, opt, 0); } catch (const std::exception &) { t1 = true; } try { obs_section(b2, fresh, opt, 0); } catch (const std::exception &) { t2 = true; }
        nixsym_assert(t1 == t2 && a.s == b2.s, "a handle obtained earlier and a handle fetched now disagree about the section"); } }
}

static void run(bool reopen_rw) {
    nixsym_declare_reach("compared");
    World w;
    vrt_set_tz(3600);                    // the writer works at UTC+1 ...
    build_world(w);
    for (int s = 0; s < VH_STEPS; s++) {
        uint32_t op = nixsym_choice("op", N_OPS);
        // in a history of several steps an operation may be refused because of an earlier one (name taken, entity deleted): that is
        // a legal history too - the refusal must leave a state that survives the reopen like any other
        try { mutate(w, op); } catch (const std::exception &) { nixsym_assert(VH_STEPS > 1 && s > 0, "an operation of the menu was refused on the fresh world file"); }
        if (VH_STEPS > 1 && s == 0 && nixsym_choice("midreopen", 2) == 1) {
            drop_handles(w); w.f.close();
            w.f = File::open(WORLD_FILE, FileMode::ReadWrite);
            rebind_world(w);
        }
    }
    w.f.flush();
    coherent(w);
    std::string before = observe(w.f);
    drop_handles(w);
    w.f.close();
    nixsym_assert(!w.f.isOpen(), "closed");
    vrt_set_tz(-18000);                  // ... the reader at UTC-5: what a file says must not depend on where it is read
    File g = File::open(WORLD_FILE, reopen_rw ? FileMode::ReadWrite : FileMode::ReadOnly);
    std::string after = observe(g);
    nixsym_assert(before.size() == after.size(), "reopened tree has the same shape");
    nixsym_assert(before == after, "reopened file exposes exactly the same entity tree");
    nixsym_reach("compared");
    g.close();
}

extern "C" void vh_c02_reopen_ro() { run(false); }
extern "C" void vh_c02_reopen_rw() { run(true); }
