// C03 — names unique per parent; name / id / index lookups, has-queries, counts and order agree (full stack on the HDF5 model)
#include "vh.hpp"
#include <functional>
using namespace nix;

#ifndef VH_STEPS
#define VH_STEPS 3
#endif

struct Item { std::string name, id; };
struct Container {
    std::function<Item(const std::string &)> create;           // returns {name,id} of created entity; throws on rejection
    std::function<bool(const std::string &)> del;               // by name or id
    std::function<ndsize_t()> count;
    std::function<Item(ndsize_t)> at;                           // by index
    std::function<bool(const std::string &)> has;               // by name or id
    std::function<Item(const std::string &)> get;               // by name or id; name=="" when not found
    std::function<bool(const std::string &)> available;         // may an entity of that name be created / linked at all (default: any legal name)
};

static const char *UUIDISH = "12345678-1234-4234-8234-123456789abc";   // looks like an id, is nobody's id

#ifndef VH_NAMES
#define VH_NAMES 9
#endif
static std::string pick_name() {
    // quick tier: the first 6 candidates
    switch (nixsym_choice("name", VH_NAMES)) {
    case 0: return "a"; case 1: return "b"; case 2: return UUIDISH; case 3: return ""; case 4: return "a/b";
    case 5: { // one symbolic character
        std::string s(1, 'x'); uint8_t c = nixsym_u8("ch");
        nixsym_assume(c == 'a' || c == 'b' || c == '/' || c == 'c');
        s[0] = (char)c; return s; }
    case 6: return "A"; case 7: return "a ";
    default: return "..";
    }
}
static bool legal(const std::string &n) { return !n.empty() && n.find('/') == std::string::npos; }

static void check_agreement(Container &c, const std::vector<Item> &ref, const char *when) {
    (void)when;
    nixsym_assert(c.count() == ref.size(), "count equals number of live entities");
    for (size_t i = 0; i < ref.size(); i++) {
        Item it = c.at(i);
        nixsym_assert(it.name == ref[i].name, "index order is creation order (name)");
        nixsym_assert(it.id == ref[i].id, "index order is creation order (id)");
        nixsym_assert(c.has(ref[i].name), "has(name)");
        nixsym_assert(c.has(ref[i].id), "has(id)");
        nixsym_assert(c.get(ref[i].name).id == ref[i].id, "lookup by name finds the entity");
        nixsym_assert(c.get(ref[i].id).name == ref[i].name, "lookup by id finds the entity");
        for (size_t j = 0; j < i; j++) nixsym_assert(ref[i].name != ref[j].name && ref[i].id != ref[j].id, "names and ids unique");
    }
    nixsym_assert(!c.has("zz"), "has(absent name) is false");
    nixsym_assert(!c.has("99999999-9999-4999-8999-999999999999"), "has(absent id) is false");
}

static void run_history(Container &c, std::function<void()> reopen) {
    nixsym_declare_reach("created"); nixsym_declare_reach("rejected"); nixsym_declare_reach("deleted"); nixsym_declare_reach("final");
    std::vector<Item> ref;
    for (int step = 0; step < VH_STEPS; step++) {
        uint32_t op = nixsym_choice("op", 2);
        if (op == 0) {
            std::string n = pick_name();
            bool dup = false;
            for (auto &r : ref) dup = dup || r.name == n;
            bool expect_ok = (c.available ? c.available(n) : legal(n)) && !dup;
            bool ok = false; Item it;
            try { it = c.create(n); ok = true; } catch (const std::exception &) { ok = false; }
            nixsym_assert(ok == expect_ok, "create succeeds iff the name is legal and not taken");
            if (ok) { nixsym_reach("created"); nixsym_assert(it.name == n, "created entity carries the requested name"); ref.push_back(it); }
            else nixsym_reach("rejected");
        } else {
            if (ref.empty()) continue;
            uint32_t k = nixsym_choice("victim", (uint32_t)ref.size());
            bool byid = nixsym_choice("byid", 2) == 1;
            bool ok = c.del(byid ? ref[k].id : ref[k].name);
            nixsym_assert(ok, "delete of an existing entity reports success");
            nixsym_reach("deleted");
            ref.erase(ref.begin() + k);
        }
        check_agreement(c, ref, "after step");
    }
    reopen();
    check_agreement(c, ref, "after reopen");
    nixsym_reach("final");
}

// ---- containers ----
template <class T> static Item item_of(const T &e) { Item i; if (e) { i.name = e.name(); i.id = e.id(); } return i; }

static File g_file; static Block g_block; static Section g_sec; static Source g_src;
static void open_base(bool need_block, bool need_sec, bool need_src) {
    g_file = File::open("c03.h5", FileMode::Overwrite);
    if (need_block || need_src) g_block = g_file.createBlock("blk", "t");
    if (need_sec) g_sec = g_file.createSection("sec", "t");
    if (need_src) g_src = g_block.createSource("src", "t");
}
static void reopen_base(bool need_block, bool need_sec, bool need_src) {
    g_src = none; g_sec = none; g_block = none;
    g_file.close();
    g_file = File::open("c03.h5", FileMode::ReadWrite);
    if (need_block || need_src) g_block = g_file.getBlock("blk");
    if (need_sec) g_sec = g_file.getSection("sec");
    if (need_src) g_src = g_block.getSource("src");
}

extern "C" void vh_c03_blocks() {
    open_base(false, false, false);
    Container c;
    c.create = [](const std::string &n) { return item_of(g_file.createBlock(n, "t")); };
    c.del = [](const std::string &n) { return g_file.deleteBlock(n); };
    c.count = []() { return g_file.blockCount(); };
    c.at = [](ndsize_t i) { return item_of(g_file.getBlock(i)); };
    c.has = [](const std::string &n) { return g_file.hasBlock(n); };
    c.get = [](const std::string &n) { return item_of(g_file.getBlock(n)); };
    run_history(c, []() { reopen_base(false, false, false); });
}
extern "C" void vh_c03_file_sections() {
    open_base(false, false, false);
    Container c;
    c.create = [](const std::string &n) { return item_of(g_file.createSection(n, "t")); };
    c.del = [](const std::string &n) { return g_file.deleteSection(n); };
    c.count = []() { return g_file.sectionCount(); };
    c.at = [](ndsize_t i) { return item_of(g_file.getSection(i)); };
    c.has = [](const std::string &n) { return g_file.hasSection(n); };
    c.get = [](const std::string &n) { return item_of(g_file.getSection(n)); };
    run_history(c, []() { reopen_base(false, false, false); });
}
extern "C" void vh_c03_sub_sections() {
    open_base(false, true, false);
    Container c;
    c.create = [](const std::string &n) { return item_of(g_sec.createSection(n, "t")); };
    c.del = [](const std::string &n) { return g_sec.deleteSection(n); };
    c.count = []() { return g_sec.sectionCount(); };
    c.at = [](ndsize_t i) { return item_of(g_sec.getSection(i)); };
    c.has = [](const std::string &n) { return g_sec.hasSection(n); };
    c.get = [](const std::string &n) { return item_of(g_sec.getSection(n)); };
    run_history(c, []() { reopen_base(false, true, false); });
}
extern "C" void vh_c03_properties() {
    open_base(false, true, false);
    Container c;
    c.create = [](const std::string &n) { Property p = g_sec.createProperty(n, DataType::Int32); Item i; i.name = p.name(); i.id = p.id(); return i; };
    c.del = [](const std::string &n) { return g_sec.deleteProperty(n); };
    c.count = []() { return g_sec.propertyCount(); };
    c.at = [](ndsize_t i) { Property p = g_sec.getProperty(i); Item it; it.name = p.name(); it.id = p.id(); return it; };
    c.has = [](const std::string &n) { return g_sec.hasProperty(n); };
    c.get = [](const std::string &n) { Property p = g_sec.getProperty(n); Item it; if (p) { it.name = p.name(); it.id = p.id(); } return it; };
    run_history(c, []() { reopen_base(false, true, false); });
}
extern "C" void vh_c03_block_sources() {
    open_base(true, false, false);
    Container c;
    c.create = [](const std::string &n) { return item_of(g_block.createSource(n, "t")); };
    c.del = [](const std::string &n) { return g_block.deleteSource(n); };
    c.count = []() { return g_block.sourceCount(); };
    c.at = [](ndsize_t i) { return item_of(g_block.getSource(i)); };
    c.has = [](const std::string &n) { return g_block.hasSource(n); };
    c.get = [](const std::string &n) { return item_of(g_block.getSource(n)); };
    run_history(c, []() { reopen_base(true, false, false); });
}
extern "C" void vh_c03_sub_sources() {
    open_base(true, false, true);
    Container c;
    c.create = [](const std::string &n) { return item_of(g_src.createSource(n, "t")); };
    c.del = [](const std::string &n) { return g_src.deleteSource(n); };
    c.count = []() { return g_src.sourceCount(); };
    c.at = [](ndsize_t i) { return item_of(g_src.getSource(i)); };
    c.has = [](const std::string &n) { return g_src.hasSource(n); };
    c.get = [](const std::string &n) { return item_of(g_src.getSource(n)); };
    run_history(c, []() { reopen_base(true, false, true); });
}
extern "C" void vh_c03_data_arrays() {
    open_base(true, false, false);
    Container c;
    c.create = [](const std::string &n) { return item_of(g_block.createDataArray(n, "t", DataType::Double, NDSize({2}))); };
    c.del = [](const std::string &n) { return g_block.deleteDataArray(n); };
    c.count = []() { return g_block.dataArrayCount(); };
    c.at = [](ndsize_t i) { return item_of(g_block.getDataArray(i)); };
    c.has = [](const std::string &n) { return g_block.hasDataArray(n); };
    c.get = [](const std::string &n) { return item_of(g_block.getDataArray(n)); };
    run_history(c, []() { reopen_base(true, false, false); });
}
extern "C" void vh_c03_tags() {
    open_base(true, false, false);
    Container c;
    c.create = [](const std::string &n) { return item_of(g_block.createTag(n, "t", {1.0})); };
    c.del = [](const std::string &n) { return g_block.deleteTag(n); };
    c.count = []() { return g_block.tagCount(); };
    c.at = [](ndsize_t i) { return item_of(g_block.getTag(i)); };
    c.has = [](const std::string &n) { return g_block.hasTag(n); };
    c.get = [](const std::string &n) { return item_of(g_block.getTag(n)); };
    run_history(c, []() { reopen_base(true, false, false); });
}
extern "C" void vh_c03_multi_tags() {
    open_base(true, false, false);
    DataArray pos = g_block.createDataArray("positions", "t", DataType::Double, NDSize({2}));
    static std::string posid; posid = pos.id();
    Container c;
    c.create = [](const std::string &n) { return item_of(g_block.createMultiTag(n, "t", g_block.getDataArray(posid))); };
    c.del = [](const std::string &n) { return g_block.deleteMultiTag(n); };
    c.count = []() { return g_block.multiTagCount(); };
    c.at = [](ndsize_t i) { return item_of(g_block.getMultiTag(i)); };
    c.has = [](const std::string &n) { return g_block.hasMultiTag(n); };
    c.get = [](const std::string &n) { return item_of(g_block.getMultiTag(n)); };
    run_history(c, []() { reopen_base(true, false, false); });
}
extern "C" void vh_c03_groups() {
    open_base(true, false, false);
    Container c;
    c.create = [](const std::string &n) { return item_of(g_block.createGroup(n, "t")); };
    c.del = [](const std::string &n) { return g_block.deleteGroup(n); };
    c.count = []() { return g_block.groupCount(); };
    c.at = [](ndsize_t i) { return item_of(g_block.getGroup(i)); };
    c.has = [](const std::string &n) { return g_block.hasGroup(n); };
    c.get = [](const std::string &n) { return item_of(g_block.getGroup(n)); };
    run_history(c, []() { reopen_base(true, false, false); });
}
extern "C" void vh_c03_data_frames() {
    open_base(true, false, false);
    Container c;
    c.create = [](const std::string &n) { std::vector<Column> cols = {{"c1", "", DataType::Int32}}; return item_of(g_block.createDataFrame(n, "t", cols)); };
    c.del = [](const std::string &n) { return g_block.deleteDataFrame(n); };
    c.count = []() { return g_block.dataFrameCount(); };
    c.at = [](ndsize_t i) { return item_of(g_block.getDataFrame(i)); };
    c.has = [](const std::string &n) { return g_block.hasDataFrame(n); };
    c.get = [](const std::string &n) { return item_of(g_block.getDataFrame(n)); };
    run_history(c, []() { reopen_base(true, false, false); });
}

// ---- link containers: references of a tag, members of a group, sources of an entity.  "create" links an existing target by name,
//      "delete" removes the link (the target stays in the block) ----
static Tag g_tag; static Group g_grp; static DataArray g_holder;
static bool is_target(const std::string &n) { return n == "a" || n == "b" || n == "c" || n == UUIDISH; }
static void make_targets(bool sources) {
    static const char *T[] = {"a", "b", "c", UUIDISH};
    for (auto t : T) { if (sources) g_block.createSource(t, "t"); else g_block.createDataArray(t, "t", DataType::Double, NDSize({1})); }
}
extern "C" void vh_c03_tag_references() {
    open_base(true, false, false);
    make_targets(false);
    g_tag = g_block.createTag("tag", "t", {1.0});
    Container c;
    c.available = is_target;
    c.create = [](const std::string &n) { g_tag.addReference(n); return item_of(g_block.getDataArray(n)); };
    c.del = [](const std::string &n) { return g_tag.removeReference(n) && g_block.dataArrayCount() == 4; };
    c.count = []() { return g_tag.referenceCount(); };
    c.at = [](ndsize_t i) { return item_of(g_tag.getReference((size_t)i)); };
    c.has = [](const std::string &n) { return g_tag.hasReference(n); };
    c.get = [](const std::string &n) { return item_of(g_tag.getReference(n)); };
    run_history(c, []() { g_tag = none; reopen_base(true, false, false); g_tag = g_block.getTag("tag"); });
}
extern "C" void vh_c03_group_members() {
    open_base(true, false, false);
    make_targets(false);
    g_grp = g_block.createGroup("grp", "t");
    Container c;
    c.available = is_target;
    c.create = [](const std::string &n) { g_grp.addDataArray(n); return item_of(g_block.getDataArray(n)); };
    c.del = [](const std::string &n) { return g_grp.removeDataArray(n) && g_block.dataArrayCount() == 4; };
    c.count = []() { return g_grp.dataArrayCount(); };
    c.at = [](ndsize_t i) { return item_of(g_grp.getDataArray((size_t)i)); };
    c.has = [](const std::string &n) { return g_grp.hasDataArray(n); };
    c.get = [](const std::string &n) { return item_of(g_grp.getDataArray(n)); };
    run_history(c, []() { g_grp = none; reopen_base(true, false, false); g_grp = g_block.getGroup("grp"); });
}
extern "C" void vh_c03_entity_sources() {
    open_base(true, false, false);
    make_targets(true);
    g_holder = g_block.createDataArray("holder", "t", DataType::Double, NDSize({1}));
    Container c;
    c.available = is_target;
    c.create = [](const std::string &n) { g_holder.addSource(n); return item_of(g_block.getSource(n)); };
    c.del = [](const std::string &n) { return g_holder.removeSource(n) && g_block.sourceCount() == 4; };
    c.count = []() { return g_holder.sourceCount(); };
    c.at = [](ndsize_t i) { return item_of(g_holder.getSource((size_t)i)); };
    c.has = [](const std::string &n) { return g_holder.hasSource(n); };
    c.get = [](const std::string &n) { return item_of(g_holder.getSource(n)); };
    run_history(c, []() { g_holder = none; reopen_base(true, false, false); g_holder = g_block.getDataArray("holder"); });
}

// ---- sources attached to an entity, with NESTED sources and deletion of an ancestor: the holder's count / index / id lookups,
//      has-queries and enumeration agree with the reference list after every step and after reopen (the API is id- and handle-based) ----
#ifndef VH_SSTEPS
#define VH_SSTEPS 3
#endif
extern "C" void vh_c03_nested_entity_sources() {
    nixsym_declare_reach("attached"); nixsym_declare_reach("ancestor_deleted"); nixsym_declare_reach("final");
    open_base(true, false, false);
    Source h[3]; bool alive[3] = {true, true, true}; std::string ids[3];
    h[0] = g_block.createSource("top", "t"); h[1] = h[0].createSource("kid", "t"); h[2] = g_block.createSource("other", "t");
    for (int i = 0; i < 3; i++) ids[i] = h[i].id();
    g_holder = g_block.createDataArray("holder", "t", DataType::Double, NDSize({1}));
    std::vector<int> att;                                   // attached, in attach order
    auto is_att = [&](int k) { for (int x : att) if (x == k) return true; return false; };
    auto detach = [&](int k) { for (size_t i = 0; i < att.size(); i++) if (att[i] == k) { att.erase(att.begin() + i); return; } };
    auto check = [&]() {
        nixsym_assert(g_holder.sourceCount() == att.size(), "source count of the holder equals the number of attached, undeleted sources");
        std::vector<Source> all = g_holder.sources();
        nixsym_assert(all.size() == att.size(), "sources() enumerates as many as sourceCount()");
        for (size_t i = 0; i < att.size(); i++) {
            nixsym_assert(g_holder.getSource(i).id() == ids[att[i]], "index order is attach order");
            nixsym_assert(i < all.size() && all[i].id() == ids[att[i]], "enumeration agrees with the index lookup");
        }
        for (int k = 0; k < 3; k++) {
            nixsym_assert(g_holder.hasSource(ids[k]) == is_att(k), "hasSource(id) agrees with the list");
            Source s = g_holder.getSource(ids[k]);
            nixsym_assert((bool)s == is_att(k), "getSource(id) agrees with the list");
        }
    };
    for (int step = 0; step < VH_SSTEPS; step++) {
        uint32_t op = nixsym_choice("op", 6);
        if (op < 3) { int k = (int)op; if (!alive[k] || is_att(k)) continue; if (nixsym_choice("byid", 2)) g_holder.addSource(ids[k]); else g_holder.addSource(h[k]); att.push_back(k); nixsym_reach("attached"); }
        else if (op == 3) { if (!alive[0]) continue; bool ok = nixsym_choice("byid", 2) ? g_block.deleteSource(ids[0]) : g_block.deleteSource("top"); nixsym_assert(ok, "deleting a root source reports success");
                            alive[0] = alive[1] = false; detach(0); detach(1); nixsym_reach("ancestor_deleted"); }
        else if (op == 4) { if (!alive[1]) continue; bool ok = h[0].deleteSource("kid"); nixsym_assert(ok, "deleting a child source reports success"); alive[1] = false; detach(1); }
        else { if (!is_att(1)) continue; bool ok = g_holder.removeSource(ids[1]); nixsym_assert(ok, "removing an attached source reports success"); detach(1); }
        check();
    }
    for (auto &x : h) x = none;
    g_holder = none; reopen_base(true, false, false); g_holder = g_block.getDataArray("holder");
    check();
    nixsym_reach("final");
}
