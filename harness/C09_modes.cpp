// C09 — file open modes: ReadOnly never writes, ReadWrite preserves, Overwrite empties (full stack on the HDF5 model)
#include "world.hpp"
#include "h5model.h"
using namespace nix;
using namespace vh;

#define N_MUT 40
// every mutating entry point of the public API, attempted on a file opened ReadOnly
static void mutating_call(World &w, uint32_t op) {
    switch (op) {
    case 0:  w.f.createBlock("nb", "t"); break;
    case 1:  w.f.deleteBlock("blk2"); break;
    case 2:  w.f.createSection("ns", "t"); break;
    case 3:  w.f.deleteSection("sec2"); break;
    case 4:  w.sec.createSection("ns", "t"); break;
    case 5:  w.sec.deleteSection("child"); break;
    case 6:  w.sec.createProperty("np", DataType::Double); break;
    case 7:  w.prop.values({Variant(1.0)}); break;
    case 8:  w.prop.deleteValues(); break;
    case 9:  w.prop.unit("mV"); break;
    case 10: w.sec.deleteProperty("temperature"); break;
    case 11: w.sec2.link(none); break;
    case 12: w.b.createDataArray("nd", "t", DataType::Double, NDSize({2})); break;
    case 13: { std::vector<double> v = {9.0}; w.da1.setData(DataType::Double, v.data(), NDSize({1}), NDSize({2})); break; }
    case 14: w.da1.dataExtent(NDSize({6})); break;
    case 15: w.da1.polynomCoefficients({1.0, 2.0}); break;
    case 16: w.da1.deleteDimensions(); break;
    case 17: w.da1.appendSetDimension(); break;
    case 18: w.da1.label("x"); break;
    case 19: w.b.deleteDataArray("da1"); break;
    case 20: w.tag.position({3.0}); break;
    case 21: w.tag.addReference(w.da2); break;
    case 22: w.tag.createFeature(w.da2, LinkType::Tagged); break;
    case 23: w.b.deleteTag("tag"); break;
    case 24: w.mtag.extents(none); break;
    case 25: w.b.deleteMultiTag("mtag"); break;
    case 26: w.grp.addDataArray(w.da2); break;
    case 27: w.b.deleteGroup("grp"); break;
    case 28: w.src.createSource("c2", "t"); break;
    case 29: w.b.deleteSource("src"); break;
    case 30: w.da1.addSource(w.src2); break;
    case 31: w.da1.metadata(none); break;
    case 32: w.df.rows(3); break;
    case 33: w.df.writeCell(0, 2, Variant(1.0)); break;
    case 34: w.b.deleteDataFrame("df"); break;
    case 35: w.b.createTag("nt", "t", {1.0}); break;
    case 36: w.b.type("newtype"); break;
    case 37: w.b.definition("d"); break;
    case 38: w.f.forceId(); break;
    case 39: w.da1.getDimension(1).asSampledDimension().samplingInterval(2.0); break;
    }
}

extern "C" void vh_c09_readonly() {
    nixsym_declare_reach("refused"); nixsym_declare_reach("closed");
    World w;
    build_world(w);
    std::string content = observe(w.f);
    drop_handles(w); w.f.close();
    unsigned long long m0 = h5m_file_mutations(WORLD_FILE);
    w.f = File::open(WORLD_FILE, FileMode::ReadOnly);
    nixsym_assert(h5m_file_mutations(WORLD_FILE) == m0, "opening ReadOnly wrote to the file");
    rebind_world(w);
    nixsym_assert(observe(w.f) == content, "ReadOnly exposes the prior content");
    nixsym_assert(h5m_file_mutations(WORLD_FILE) == m0, "reading through a ReadOnly file wrote to it");
    uint32_t op = nixsym_choice("op", N_MUT);
    bool threw = false;
    try { mutating_call(w, op); } catch (const std::exception &) { threw = true; }
    nixsym_assert(threw, "a mutating call on a ReadOnly file must fail with an exception");
    if (threw) nixsym_reach("refused");
    nixsym_assert(h5m_file_mutations(WORLD_FILE) == m0, "a refused mutating call changed the file");
    nixsym_assert(observe(w.f) == content, "content unchanged after the refused call");
    drop_handles(w); w.f.close();
    nixsym_assert(h5m_file_mutations(WORLD_FILE) == m0, "closing a ReadOnly file wrote to it");
    nixsym_reach("closed");
}

extern "C" void vh_c09_readwrite_overwrite() {
    World w;
    build_world(w);
    std::string content = observe(w.f);
    drop_handles(w); w.f.close();
    uint32_t which = nixsym_choice("case", 5);
    nixsym_declare_reach(which == 0 ? "rw" : which == 1 ? "ow" : which == 2 ? "absent" : which == 4 ? "raw" : "plain");
    if (which == 0) {           // ReadWrite keeps everything
        File g = File::open(WORLD_FILE, FileMode::ReadWrite);
        nixsym_assert(observe(g) == content, "ReadWrite opens an existing file with all prior content intact");
        g.createBlock("added", "t");
        nixsym_assert(g.blockCount() == 3, "and it is writable");
        nixsym_reach("rw");
    } else if (which == 1) {    // Overwrite empties
        File g = File::open(WORLD_FILE, FileMode::Overwrite);
        nixsym_assert(g.blockCount() == 0 && g.sectionCount() == 0, "Overwrite yields an empty file");
        nixsym_assert(g.format() == "nix" && g.version().size() == 3 && !g.id().empty(), "Overwrite yields a valid header");
        g.close();
        File h = File::open(WORLD_FILE, FileMode::ReadOnly);
        nixsym_assert(h.blockCount() == 0 && h.sectionCount() == 0, "still empty after reopen");
        nixsym_reach("ow");
    } else if (which == 2) {    // absent path
        bool threw = false;
        try { File g = File::open("absent.h5", FileMode::ReadOnly); } catch (const std::exception &) { threw = true; }
        nixsym_assert(threw, "ReadOnly on a non-existent path is refused");
        nixsym_assert(!h5m_file_exists("absent.h5"), "and creates nothing");
        File g = File::open("absent.h5", FileMode::ReadWrite);
        nixsym_assert(g.isOpen() && g.blockCount() == 0 && g.format() == "nix", "ReadWrite creates the file if absent");
        nixsym_reach("absent");
    } else if (which == 4) {    // a file that is not an HDF5 file at all: empty placeholder or arbitrary bytes
        long long size = nixsym_choice("rawsize", 2) == 0 ? 0 : 37;
        h5m_make_raw_file("raw.bin", size);
        unsigned long long m0 = h5m_file_mutations("raw.bin");
        bool threw = false, writable = false;
        try { File g = File::open("raw.bin", FileMode::ReadOnly); try { g.createBlock("x", "t"); writable = true; } catch (const std::exception &) {} } catch (const std::exception &) { threw = true; }
        nixsym_assert(threw && !writable, "ReadOnly on a file that is not a NIX file is refused");
        nixsym_assert(h5m_file_mutations("raw.bin") == m0 && h5m_file_size("raw.bin") == size, "and the file is left untouched");
        nixsym_reach("raw");
    } else {                    // plain HDF5 file without NIX header
        h5m_make_plain_file("plain.h5");
        uint32_t m = nixsym_choice("mode", 2);
        bool threw = false;
        try { File g = File::open("plain.h5", m ? FileMode::ReadWrite : FileMode::ReadOnly); } catch (const std::exception &) { threw = true; }
        nixsym_assert(threw, "a plain HDF5 file without format/version/id header is refused");
        nixsym_reach("plain");
    }
}
