// harness intrinsics: implemented by the nixsym engine (symbolic) and by rt/replay_rt.cpp (native replay)
#pragma once
#include <stdint.h>
#include <stddef.h>
#ifdef __cplusplus
extern "C" {
#endif
uint8_t  nixsym_u8(const char *name);
uint16_t nixsym_u16(const char *name);
uint32_t nixsym_u32(const char *name);
int32_t  nixsym_i32(const char *name);
uint64_t nixsym_u64(const char *name);
int64_t  nixsym_i64(const char *name);
uint8_t  nixsym_bool(const char *name);
double   nixsym_f64(const char *name);
float    nixsym_f32(const char *name);
void     nixsym_bytes(void *p, size_t n, const char *name);
uint32_t nixsym_choice(const char *name, uint32_t n);
void     nixsym_assume(bool c);
void     nixsym_assert(bool c, const char *msg);
void     nixsym_reach(const char *label);
void     nixsym_declare_reach(const char *label);
void     nixsym_unreached(const char *msg);
void     nixsym_trace_u64(const char *name, uint64_t v);
void     nixsym_trace_f64(const char *name, double v);
void     nixsym_trace_str(const char *name, const char *v);
void     nixsym_finding(const char *id, bool cond);
void     nixsym_print(const char *msg);
uint64_t nixsym_concretize_u64(const char *name, uint64_t v, uint32_t maxvals);
uint32_t nixsym_count_values(uint64_t v, uint32_t maxvals);
/* environment: the time zone of the running process, seconds east of UTC (rt/rt_libc.c; natively TZ + tzset) */
void     vrt_set_tz(long seconds_east);
#ifdef __cplusplus
}
#endif
