// C20 — tree searches and back-reference queries equal a brute-force traversal (full stack on the HDF5 model)
#include "vh.hpp"
#include <nix/util/filter.hpp>
using namespace nix;
using namespace vh;

#ifndef VH_DEPTH
#define VH_DEPTH 3
#endif
#ifndef VH_BRANCH
#define VH_BRANCH 2
#endif
#ifndef VH_STARTS
#define VH_STARTS 64
#endif

// the tree as the harness built it: parent index (-1 root), depth (roots: 1), creation order = index
struct Node { std::string id, name; int parent; int depth; };
static const char *NAMES[] = {"a", "b", "c"};

static int g_levels = VH_DEPTH;
template <class Parent, class Ent, class Make>
static void grow(std::vector<Node> &nodes, std::vector<Ent> &ents, int parent, int depth, Parent &p, Make make) {
    if (depth > g_levels) return;
    uint32_t k = nixsym_choice("children", VH_BRANCH + 1);
    for (uint32_t i = 0; i < k; i++) {
        Ent e = make(p, NAMES[i], (parent + (int)i) % 2 ? "t1" : "t2");
        Node n; n.id = e.id(); n.name = NAMES[i]; n.parent = parent; n.depth = depth;
        nodes.push_back(n); ents.push_back(e);
        int me = (int)nodes.size() - 1;
        Ent self = e;                                    // a copy of the handle: `ents` may reallocate while the subtree grows
        grow(nodes, ents, me, depth + 1, self, make);
    }
}

// breadth-first list of the descendants of `start` (index, -1 = all roots in order, each followed by ... see caller) with relative depth 1..maxd
static std::vector<int> bfs(const std::vector<Node> &nodes, int start, size_t maxd, bool include_start) {
    std::vector<int> out, level;
    if (include_start) out.push_back(start);
    level.push_back(start);
    for (size_t d = 1; d <= maxd && !level.empty(); d++) {
        std::vector<int> next;
        for (int p : level) for (int i = 0; i < (int)nodes.size(); i++) if (nodes[i].parent == p) next.push_back(i);
        for (int i : next) out.push_back(i);
        level = next;
    }
    return out;
}

struct Pick { int kind; std::string arg; std::vector<std::string> ids; };   // 0 all, 1 id, 2 name, 3 id set
static Pick pick_filter(const std::vector<Node> &nodes) {
    Pick p; p.kind = (int)nixsym_choice("filter", 4);
    if (p.kind == 1) p.arg = nodes.empty() ? "none" : nodes[nixsym_choice("target", (uint32_t)nodes.size())].id;
    if (p.kind == 2) p.arg = NAMES[nixsym_choice("fname", 2)];
    if (p.kind == 3) { if (!nodes.empty()) { p.ids.push_back(nodes[0].id); p.ids.push_back(nodes[nodes.size() - 1].id); } p.ids.push_back("zz"); }
    return p;
}
static bool accepts(const Pick &p, const Node &n) {
    if (p.kind == 0) return true;
    if (p.kind == 1) return n.id == p.arg;
    if (p.kind == 2) return n.name == p.arg;
    for (auto &x : p.ids) if (x == n.id) return true;
    return false;
}
template <class T> static typename util::Filter<T>::type make_filter(const Pick &p) {
    if (p.kind == 0) return util::AcceptAll<T>();
    if (p.kind == 1) return util::IdFilter<T>(p.arg);
    if (p.kind == 2) return util::NameFilter<T>(p.arg);
    return util::IdsFilter<T>(p.ids);
}
template <class T> static void same_list(const std::vector<T> &got, const std::vector<int> &want, const std::vector<Node> &nodes, const char *msg) {
    bool ok = got.size() == want.size();
    for (size_t i = 0; ok && i < got.size(); i++) ok = got[i].id() == nodes[want[i]].id;
    nixsym_assert(ok, msg);
}

extern "C" void vh_c20_sections() {
    nixsym_declare_reach("searched");
    File f = File::open("c20.h5", FileMode::Overwrite);
    std::vector<Node> nodes; std::vector<Section> ents;
    auto mk = [](Section &p, const char *n, const char *t) { return p.createSection(n, t); };
    uint32_t roots = 1 + nixsym_choice("roots", 2);
    g_levels = 2 + (int)nixsym_choice("levels", VH_DEPTH - 1);
    for (uint32_t r = 0; r < roots; r++) {
        Section s = f.createSection(NAMES[r], "t2");
        Node n; n.id = s.id(); n.name = NAMES[r]; n.parent = -1; n.depth = 1; nodes.push_back(n); ents.push_back(s);
        int me = (int)nodes.size() - 1;
        grow(nodes, ents, me, 2, s, mk);
    }
    Pick p = pick_filter(nodes);
    uint32_t dl = nixsym_choice("depth", VH_DEPTH + 3);                   // 0..VH_DEPTH+1, last value: the unlimited default
    bool unlimited = dl == VH_DEPTH + 2;
    size_t maxd = unlimited ? 1000 : dl;
    // search from a single section: breadth-first, the start itself not included
    uint32_t nstart = (uint32_t)nodes.size() < VH_STARTS ? (uint32_t)nodes.size() : VH_STARTS;
    int start = (int)nixsym_choice("start", nstart);
    // one filter object serves every search of this run (a filter is a predicate: using it must not change what it accepts)
    util::Filter<Section>::type flt = make_filter<Section>(p);
    {
        std::vector<int> want; for (int i : bfs(nodes, start, maxd, false)) if (accepts(p, nodes[i])) want.push_back(i);
        std::vector<Section> got = unlimited ? ents[start].findSections(flt) : ents[start].findSections(flt, maxd);
        same_list(got, want, nodes, "Section::findSections = breadth-first brute-force traversal within the depth limit, each section once");
    }
    // search from the file: every root (depth 1) followed by its subtree
    {
        std::vector<int> want;
        if (maxd > 0) for (int r = 0; r < (int)nodes.size(); r++) if (nodes[r].parent == -1) for (int i : bfs(nodes, r, maxd - 1, true)) if (accepts(p, nodes[i])) want.push_back(i);
        std::vector<Section> got = unlimited ? f.findSections(flt) : f.findSections(flt, maxd);
        same_list(got, want, nodes, "File::findSections = brute-force traversal within the depth limit, each section once");
    }
    nixsym_reach("searched");
}

extern "C" void vh_c20_sources() {
    nixsym_declare_reach("searched");
    File f = File::open("c20s.h5", FileMode::Overwrite);
    Block b = f.createBlock("b", "t");
    std::vector<Node> nodes; std::vector<Source> ents;
    auto mk = [](Source &p, const char *n, const char *t) { return p.createSource(n, t); };
    uint32_t roots = 1 + nixsym_choice("roots", 2);
    g_levels = 2 + (int)nixsym_choice("levels", VH_DEPTH - 1);
    for (uint32_t r = 0; r < roots; r++) {
        Source s = b.createSource(NAMES[r], "t2");
        Node n; n.id = s.id(); n.name = NAMES[r]; n.parent = -1; n.depth = 1; nodes.push_back(n); ents.push_back(s);
        int me = (int)nodes.size() - 1;
        grow(nodes, ents, me, 2, s, mk);
    }
    Pick p = pick_filter(nodes);
    uint32_t dl = nixsym_choice("depth", VH_DEPTH + 3);
    bool unlimited = dl == VH_DEPTH + 2;
    size_t maxd = unlimited ? 1000 : dl;
    uint32_t nstart = (uint32_t)nodes.size() < VH_STARTS ? (uint32_t)nodes.size() : VH_STARTS;
    int start = (int)nixsym_choice("start", nstart);
    util::Filter<Source>::type flt = make_filter<Source>(p);
    {   // Source::findSources includes the start (depth 0)
        std::vector<int> want; for (int i : bfs(nodes, start, maxd, true)) if (accepts(p, nodes[i])) want.push_back(i);
        std::vector<Source> got = unlimited ? ents[start].findSources(flt) : ents[start].findSources(flt, maxd);
        same_list(got, want, nodes, "Source::findSources = breadth-first brute-force traversal (start included) within the depth limit");
    }
    {
        std::vector<int> want;
        for (int r = 0; r < (int)nodes.size(); r++) if (nodes[r].parent == -1) for (int i : bfs(nodes, r, maxd, true)) if (accepts(p, nodes[i])) want.push_back(i);
        std::vector<Source> got = unlimited ? b.findSources(flt) : b.findSources(flt, maxd);
        same_list(got, want, nodes, "Block::findSources = brute-force traversal of every root source's subtree");
    }
    // the parent of every source is the source whose child list contains it
    for (size_t i = 0; i < nodes.size(); i++) {
        Source ps = ents[i].parentSource();
        if (nodes[i].parent < 0) nixsym_assert(!ps, "a root source has no parent source");
        else nixsym_assert(ps && ps.id() == nodes[nodes[i].parent].id, "parentSource() is the source this one is a child of");
    }
    nixsym_reach("searched");
}

// metadata / source back references and inherited properties
extern "C" void vh_c20_backrefs() {
    nixsym_declare_reach("queried");
    File f = File::open("c20b.h5", FileMode::Overwrite);
    Block b = f.createBlock("b", "t"), b2 = f.createBlock("b2", "t");
    Section s1 = f.createSection("s1", "t"), s2 = s1.createSection("s2", "t");
    Source q1 = b.createSource("q1", "t"), q2 = q1.createSource("q2", "t");
    DataArray a1 = b.createDataArray("a1", "t", DataType::Double, NDSize({1})), a2 = b.createDataArray("a2", "t", DataType::Double, NDSize({1})), a3 = b2.createDataArray("a1", "t", DataType::Double, NDSize({1}));
    Tag t1 = b.createTag("t1", "t", {0.0}); MultiTag m1 = b.createMultiTag("m1", "t", a2);
    Section secs[2] = {s1, s2}; Source srcs[2] = {q1, q2};
    // symbolic assignment: each holder gets metadata none / s1 / s2, and sources {} / {q1} / {q2} / {q1,q2}
    uint32_t md[7], sr[4];
    md[0] = nixsym_choice("md", 3); md[2] = nixsym_choice("md", 3); md[3] = nixsym_choice("md", 3);    // block b, arrays a1 (b) and a3 (b2: same NAME as a1)
    md[1] = 0; md[4] = md[2]; md[5] = 2; md[6] = 1;                                                        // b2 none, t1 like a1, m1 -> s2, q2 -> s1
    sr[0] = nixsym_choice("src", 4); sr[2] = nixsym_choice("src", 4); sr[1] = 2; sr[3] = 1;               // a1, t1 free; a2 -> {q2}; m1 -> {q1}
#define SETMD(e, k) if (md[k]) e.metadata(secs[md[k] - 1]);
    SETMD(b, 0) SETMD(b2, 1) SETMD(a1, 2) SETMD(a3, 3) SETMD(t1, 4) SETMD(m1, 5) SETMD(q2, 6)
#define SETSRC(e, k) { if (sr[k] & 1) e.addSource(q1); if (sr[k] & 2) e.addSource(q2); }
    SETSRC(a1, 0) SETSRC(a2, 1) SETSRC(t1, 2) SETSRC(m1, 3)
    for (int k = 0; k < 2; k++) {
        Section &s = secs[k]; uint32_t me = (uint32_t)k + 1;
        std::vector<Block> rb = s.referringBlocks();
        nixsym_assert(rb.size() == (size_t)((md[0] == me) + (md[1] == me)) && (md[0] != me || rb[0].id() == b.id()) && (md[1] != me || rb.back().id() == b2.id()), "referringBlocks = blocks whose metadata is this section");
        std::vector<DataArray> ra = s.referringDataArrays();
        nixsym_assert(ra.size() == (size_t)((md[2] == me) + (md[3] == me)) && (md[2] != me || ra[0].id() == a1.id()) && (md[3] != me || ra.back().id() == a3.id()), "referringDataArrays = arrays (of all blocks) whose metadata is this section");
        nixsym_assert(s.referringDataArrays(b2).size() == (size_t)(md[3] == me), "referringDataArrays(block) is restricted to that block");
        std::vector<Tag> rt = s.referringTags(); std::vector<MultiTag> rm = s.referringMultiTags(); std::vector<Source> rs = s.referringSources();
        nixsym_assert(rt.size() == (size_t)(md[4] == me) && (rt.empty() || rt[0].id() == t1.id()), "referringTags");
        nixsym_assert(rm.size() == (size_t)(md[5] == me) && (rm.empty() || rm[0].id() == m1.id()), "referringMultiTags");
        nixsym_assert(rs.size() == (size_t)(md[6] == me) && (rs.empty() || rs[0].id() == q2.id()), "referringSources");
    }
    for (int k = 0; k < 2; k++) {
        uint32_t bit = 1u << k; Source &q = srcs[k];
        std::vector<DataArray> ra = q.referringDataArrays();
        nixsym_assert(ra.size() == (size_t)(((sr[0] & bit) != 0) + ((sr[1] & bit) != 0)) && (!(sr[0] & bit) || ra[0].id() == a1.id()) && (!(sr[1] & bit) || ra.back().id() == a2.id()), "Source::referringDataArrays = arrays the source is attached to");
        nixsym_assert(q.referringTags().size() == (size_t)((sr[2] & bit) != 0) && q.referringMultiTags().size() == (size_t)((sr[3] & bit) != 0), "Source::referringTags / referringMultiTags");
    }
    nixsym_reach("queried");
}

extern "C" void vh_c20_inherited() {
    nixsym_declare_reach("queried");
    File f = File::open("c20i.h5", FileMode::Overwrite);
    Section own = f.createSection("own", "t"), linked = f.createSection("linked", "t");
    static const char *PN[] = {"p", "q", "r"};
    uint32_t om = nixsym_choice("own_props", 8), lm = nixsym_choice("linked_props", 8);     // subsets of {p,q,r}
    for (int i = 0; i < 3; i++) { if (om & (1u << i)) own.createProperty(PN[i], Variant((int32_t)(10 + i))); if (lm & (1u << i)) linked.createProperty(PN[i], Variant((int32_t)(20 + i))); }
    bool has_link = nixsym_choice("link", 2) == 1;
    if (has_link) own.link(linked);
    std::vector<Property> got = own.inheritedProperties();
    std::vector<std::pair<std::string, int32_t>> want;
    for (int i = 0; i < 3; i++) if (om & (1u << i)) want.push_back({PN[i], 10 + i});
    if (has_link) for (int i = 0; i < 3; i++) if ((lm & (1u << i)) && !(om & (1u << i))) want.push_back({PN[i], 20 + i});
    bool ok = got.size() == want.size();
    for (size_t i = 0; ok && i < got.size(); i++) ok = got[i].name() == want[i].first && got[i].values().size() == 1 && got[i].values()[0].get<int32_t>() == want[i].second;
    nixsym_assert(ok, "inherited properties = own properties plus those of the linked section that are not shadowed by name");
    nixsym_reach("queried");
}
