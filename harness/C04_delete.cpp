// C04 — deleting an entity leaves no dangling reference and harms nothing else (full stack on the HDF5 model)
#include "world.hpp"
#include "entities.hpp"
#include <set>
using namespace nix;
using namespace vh;

#define N_VICTIMS 23

extern "C" void vh_c04_delete() {
    nixsym_declare_reach("checked");
    World w;
    build_world(w);
    EMap before = collect(w.f);
    uint32_t v = nixsym_choice("victim", N_VICTIMS);
    uint32_t how = nixsym_choice("how", 3);          // 0 by name, 1 by id, 2 by handle
    std::string vid; bool ok = false; bool valid_after = true;
#define DEL3(ent, parent, fn, NAME) { vid = ent.id(); ok = how == 0 ? parent.fn(std::string(NAME)) : how == 1 ? parent.fn(vid) : parent.fn(ent); valid_after = ent.isValidEntity(); }
    switch (v) {
    case 0:  DEL3(w.da1, w.b, deleteDataArray, "da1"); break;
    case 1:  DEL3(w.pos, w.b, deleteDataArray, "pos"); break;
    case 2:  DEL3(w.ext, w.b, deleteDataArray, "ext"); break;
    case 3:  DEL3(w.feat, w.b, deleteDataArray, "feat"); break;
    case 4:  DEL3(w.da2, w.b, deleteDataArray, "da2"); break;
    case 5:  DEL3(w.tag, w.b, deleteTag, "tag"); break;
    case 6:  DEL3(w.mtag, w.b, deleteMultiTag, "mtag"); break;
    case 7:  DEL3(w.grp, w.b, deleteGroup, "grp"); break;
    case 8:  DEL3(w.df, w.b, deleteDataFrame, "df"); break;
    case 9:  DEL3(w.src, w.b, deleteSource, "src"); break;
    case 10: DEL3(w.src2, w.b, deleteSource, "src2"); break;
    case 11: DEL3(w.src_child, w.src, deleteSource, "child"); break;
    case 12: DEL3(w.sec, w.f, deleteSection, "sec"); break;
    case 13: DEL3(w.sec2, w.f, deleteSection, "sec2"); break;
    case 14: DEL3(w.sec_child, w.sec, deleteSection, "child"); break;
    case 15: DEL3(w.b2, w.f, deleteBlock, "blk2"); break;
    case 16: DEL3(w.prop, w.sec, deleteProperty, "temperature"); break;
    case 17: DEL3(w.src_child2, w.src, deleteSource, "child2"); break;
    case 18: DEL3(w.tag_u, w.b, deleteTag, UUID_NAME); break;
    case 19: DEL3(w.da_u, w.b, deleteDataArray, UUID_NAME); break;
    case 20: DEL3(w.src_leaf, w.src_child2, deleteSource, "leaf"); break;
    case 21: DEL3(w.sec_grand, w.sec_child, deleteSection, "grand"); break;
    case 22: DEL3(w.b2_df, w.b2, deleteDataFrame, "df2"); break;                 // held by a data-frame dimension, in a block without tags or groups
    }
    nixsym_assert(ok, "delete reports success");
    nixsym_assert(!valid_after, "handle to the deleted entity reports itself invalid");
    if (v == 12 || v == 14) nixsym_assert(!w.sec_grand.isValidEntity() && (v == 14 || !w.sec_child.isValidEntity()), "handles into the deleted section subtree report themselves invalid");
    if (v == 9) nixsym_assert(!w.src_child.isValidEntity() && !w.src_child2.isValidEntity() && !w.src_leaf.isValidEntity(), "handles into the deleted source subtree report themselves invalid");
    // deleted set: the victim and what is contained in it
    std::set<std::string> D; D.insert(vid);
    for (auto &x : before[vid].subtree) D.insert(x);
    EMap after = collect(w.f);
    for (auto &kv : before) {
        const std::string &id = kv.first;
        if (D.count(id)) { nixsym_assert(after.find(id) == after.end(), "deleted entity (or part of its subtree) is still reachable"); continue; }
        auto it = after.find(id);
        nixsym_assert(it != after.end(), "an entity that was not deleted disappeared");
        if (it == after.end()) continue;
        nixsym_assert(it->second.attrs == kv.second.attrs, "attributes/data of a surviving entity changed");
        std::vector<std::string> expect, got;
        for (auto &l : kv.second.links) if (!D.count(link_target(l))) expect.push_back(l);
        for (auto &l : it->second.links) if (l.compare(0, 4, "EXC:") != 0) got.push_back(l);
        nixsym_assert(expect == got, "links of a surviving entity: exactly the old ones minus those to the deleted entity, same order");
        for (auto &l : it->second.links) nixsym_assert(!D.count(link_target(l)), "a surviving entity still exposes the deleted one");
    }
    for (auto &kv : after) nixsym_assert(before.count(kv.first) == 1, "delete created an entity");
    nixsym_reach("checked");
    // and after reopen nothing dangling resurfaces
    drop_handles(w); w.f.close();
    File g = File::open(WORLD_FILE, FileMode::ReadOnly);
    EMap re = collect(g);
    nixsym_assert(re.size() == after.size(), "same entities after reopen");
    for (auto &kv : re) for (auto &l : kv.second.links) nixsym_assert(!D.count(link_target(l)), "deleted entity exposed after reopen");
}
