// C16 — out-of-contract calls either succeed or throw a C++ exception; the engine's memory / UB checks watch every path
// (out-of-bounds and use-after-free accesses, null dereference, out-of-range float->integer casts, division by zero,
//  oversized allocations, uncaught non-C++ termination).  Indices, offsets and positions are full-range symbolic values.
#include "world.hpp"
#include <nix/util/dataAccess.hpp>
using namespace nix;
using namespace vh;

#define N_MISUSE 66

static void misuse(World &w, uint32_t op) {
    uint64_t i = nixsym_u64("index");                 // any 64-bit index
    switch (op) {
    // index getters past the end (and far past it)
    case 0:  w.f.getBlock((ndsize_t)i); break;
    case 1:  w.b.getDataArray((ndsize_t)i); break;
    case 2:  w.b.getTag((ndsize_t)i); break;
    case 3:  w.b.getMultiTag((ndsize_t)i); break;
    case 4:  w.b.getGroup((ndsize_t)i); break;
    case 5:  w.b.getSource((ndsize_t)i); break;
    case 6:  w.b.getDataFrame((ndsize_t)i); break;
    case 7:  w.f.getSection((ndsize_t)i); break;
    case 8:  w.sec.getProperty((ndsize_t)i); break;
    case 9:  w.sec.getSection((ndsize_t)i); break;
    case 10: w.tag.getReference((size_t)i); break;
    case 11: w.tag.getFeature((ndsize_t)i); break;
    case 12: w.mtag.getReference((size_t)i); break;
    case 13: w.mtag.getFeature((size_t)i); break;
    case 14: w.grp.getDataArray((size_t)i); break;
    case 15: w.da1.getDimension((ndsize_t)i); break;
    case 16: w.src.getSource((ndsize_t)i); break;
    // data I/O outside the data, wrong ranks
    case 17: { double x = 0; w.da1.getData(DataType::Double, &x, NDSize({1}), NDSize({(ndsize_t)i})); break; }
    case 18: { double x = 1; w.da1.setData(DataType::Double, &x, NDSize({1}), NDSize({(ndsize_t)i})); break; }
    case 19: { double x[4]; w.da2.getData(DataType::Double, x, NDSize({2}), NDSize({0})); break; }                   // rank 1 request on 2-D data
    case 20: { double x[4]; w.da1.getData(DataType::Double, x, NDSize({1, 1}), NDSize({0, 0})); break; }             // rank 2 request on 1-D data
    case 21: { double x[4]; w.da2.getData(DataType::Double, x, NDSize({1, 1}), NDSize({(ndsize_t)i, (ndsize_t)0})); break; }
    case 22: { std::vector<double> v; w.da1.getData(v, NDSize({0}), NDSize({(ndsize_t)i})); break; }                 // empty request
    // NDSize misuse
    case 23: { NDSize a({1, 2}), c({1}); bool r = a < c; (void)r; break; }
    case 24: { NDSize a({1, 2}), c({1}); NDSize s = a + c; (void)s; break; }
    case 25: { NDSize a({1, 2}); a[(size_t)i] = 7; nixsym_assert(a[0] == 7 || a[1] == 7, "the element written is one of the two"); break; }
    case 26: { NDSize a; ndsize_t n = a.nelms(); NDSize c = a; c = c; (void)n; break; }
    // uninitialised and deleted handles
    case 27: { DataArray n; n.name(); break; }
    case 28: { Tag n; n.references(); break; }
    case 29: { w.b.deleteDataArray("da1"); w.da1.dataExtent(); break; }
    case 30: { w.b.deleteDataArray("da1"); std::vector<double> v; w.da1.getData(v); break; }
    case 31: { w.b.deleteDataArray("da1"); util::taggedData(w.tag, (ndsize_t)0); break; }
    case 32: { w.b.deleteDataArray("pos"); std::vector<ndsize_t> idx = {0}; util::taggedData(w.mtag, idx, (ndsize_t)0); break; }
    case 33: { DataView v(w.da1, NDSize({2}), NDSize({1})); w.b.deleteDataArray("da1"); std::vector<double> x(2); v.getData(DataType::Double, x.data(), NDSize({2}), NDSize({0})); break; }
    case 34: { w.sec.deleteProperty("temperature"); w.prop.values(); break; }
    // data frames
    case 35: w.df.readRow((ndsize_t)i); break;
    case 36: w.df.readCell((ndsize_t)i, (unsigned)(i >> 32)); break;
    case 37: w.df.writeCell((ndsize_t)i, 0u, Variant((int64_t)1)); break;
    case 38: { std::vector<int64_t> v; w.df.readColumn(0u, v, true, (ndsize_t)i); break; }
    // retrieval with indices / entry counts out of contract
    case 39: util::taggedData(w.tag, (ndsize_t)i); break;
    case 40: util::featureData(w.tag, (ndsize_t)i); break;
    case 41: { std::vector<ndsize_t> idx = {(ndsize_t)i}; util::taggedData(w.mtag, idx, (ndsize_t)0); break; }
    case 42: { std::vector<ndsize_t> idx; util::taggedData(w.mtag, idx, (ndsize_t)i); break; }                        // empty index list
    case 43: util::dataSlice(w.da2, {0.0, 1.0, 2.0}, {1.0, 2.0, 3.0}); break;                                        // more entries than dimensions
    // in-contract reads into exactly sized buffers, with and without calibration: nothing may be written past the buffer
    case 44: { w.da1.polynomCoefficients({1.0, 2.0}); std::vector<float> v(4); w.da1.getData(DataType::Float, v.data(), NDSize({4}), NDSize({0})); break; }
    case 45: { w.da1.expansionOrigin(1.0); std::vector<int16_t> v(2); w.da1.getData(DataType::Int16, v.data(), NDSize({2}), NDSize({1})); std::vector<uint8_t> u(1); w.da1.getData(DataType::UInt8, u.data(), NDSize({1}), NDSize({3})); break; }
    case 46: { w.da2.polynomCoefficients({0.0, 1.0}); w.da2.expansionOrigin(2.0); std::vector<float> v(6); w.da2.getData(DataType::Float, v.data(), NDSize({2, 3}), NDSize({0, 0})); std::vector<int64_t> l(2); w.da2.getData(DataType::Int64, l.data(), NDSize({1, 2}), NDSize({1, 1})); break; }
    case 47: { std::vector<float> v(4); w.da1.getData(DataType::Float, v.data(), NDSize({4}), NDSize({0})); std::vector<int8_t> c(6); w.da2.getData(DataType::Int8, c.data(), NDSize({2, 3}), NDSize({0, 0})); DataView dv = w.tag.taggedData((size_t)0); NDSize e = dv.dataExtent(); std::vector<float> t((size_t)e.nelms()); dv.getData(DataType::Float, t.data(), e, NDSize({0})); break; }
    // scalar targets with an offset of the wrong rank (here: none), on arrays and on views: one element or an exception, never more
    case 48: { DataView v(w.da1, NDSize({3}), NDSize({1})); double x[2] = {0.0, -7.0}; v.getData(x[0], NDSize{}); nixsym_assert(x[1] == -7.0, "a scalar read writes one element"); break; }
    case 49: { DataView v(w.da1, NDSize({3}), NDSize({1})); double x = 1.0; v.setData(x, NDSize{}); break; }
    case 50: { double x = 0; w.da1.getData(x, NDSize{}); double y = 2.0; w.da2.setData(y, NDSize{}); break; }
    case 54: { DataView v(w.da1, NDSize({3}), NDSize({1})); double x[2] = {9.0, -7.0}; v.setData(x[0], NDSize({0})); std::vector<double> all; w.da1.getData(all);       // scalar at an offset of a view: exactly one element
               nixsym_assert(all.size() == 4 && all[0] == 1.5 && all[1] == 9.0 && all[2] == 3.5 && all[3] == 4.5, "a scalar write through a view changes exactly the addressed element"); break; }
    // a multi-tag without positions (empty positions array): retrieval of "all positions" is an empty list or an exception
    case 51: { w.ext.dataExtent(NDSize({0})); w.pos.dataExtent(NDSize({0})); std::vector<ndsize_t> idx; std::vector<DataView> r = util::taggedData(w.mtag, idx, (ndsize_t)0); nixsym_assert(r.empty(), "no positions, no views"); break; }
    case 52: { w.ext.dataExtent(NDSize({0})); w.pos.dataExtent(NDSize({0})); std::vector<DataView> r = util::featureData(w.mtag, std::vector<ndsize_t>(), (ndsize_t)0); nixsym_assert(r.empty(), "no positions, no feature views"); break; }
    // validation of tags whose unit list is longer / shorter than the descriptors of what they reference
    case 53: { w.tag.units({"s", "ms", "s"}); w.tag_u.units({"s", "s"}); w.mtag.units({"s", "mV", "s"}); valid::Result r = w.f.validate(); (void)r; break; }
    // dimension accessors with arbitrary indices, counts (bounded: the result is allocated) and column numbers
    case 55: { uint32_t cnt = nixsym_u32("count"); nixsym_assume(cnt <= 64); std::vector<double> ax = w.da1.getDimension(1).asSampledDimension().axis((ndsize_t)cnt, (ndsize_t)i); nixsym_assert(ax.size() == cnt, "axis returns count coordinates"); break; }
    case 56: { RangeDimension rd = w.da2.getDimension(2).asRangeDimension(); if (i & 1) { double t = rd.tickAt((ndsize_t)(i >> 1)); (void)t; } else { uint32_t cnt = nixsym_u32("count"); nixsym_assume(cnt <= 64); std::vector<double> ax = rd.axis((ndsize_t)cnt, (ndsize_t)(i >> 1)); nixsym_assert(ax.size() == cnt, "axis returns count ticks"); } break; }
    case 57: { RangeDimension rd = w.da2.getDimension(2).asRangeDimension(); double p = nixsym_f64("p"), q = nixsym_f64("q"); std::vector<double> st = {p, q}, en = {q};
               try { rd.indexOf(st, en, true, RangeMatch::Inclusive); } catch (const std::exception &) { } en.push_back(p); rd.indexOf(st, en, (i & 1) != 0, (i & 2) ? RangeMatch::Inclusive : RangeMatch::Exclusive); break; }
    case 58: { DataFrameDimension fd = w.feat.getDimension(1).asDataFrameDimension(); unsigned c = (unsigned)i; uint32_t k = (uint32_t)(i >> 32) & 3;
               if (k == 0) (void)fd.unit(c); else if (k == 1) (void)fd.label(c); else if (k == 2) (void)fd.columnDataType(c); else (void)fd.columnIndex(); break; }
    // a data frame without columns, an array without elements, an array of rank 0
    case 59: { DataFrame e = w.b.createDataFrame("empty", "t", std::vector<Column>{}); e.rows(2); (void)e.readRow(0); e.writeRow(1, std::vector<Variant>{}); (void)e.columns(); (void)e.readCell(0, 0u); break; }
    case 60: { DataArray z = w.b.createDataArray("zero", "t", DataType::Double, NDSize({0})); std::vector<double> v; z.getData(v); nixsym_assert(v.empty(), "no elements"); v.push_back(1.0); z.appendData(DataType::Double, v.data(), NDSize({1}), 0); z.getData(v); nixsym_assert(v.size() == 1 && v[0] == 1.0, "appended element reads back"); z.dataExtent(NDSize({0})); z.getData(v); break; }
    case 61: { DataArray z = w.b.createDataArray("rank0", "t", DataType::Double, NDSize{}); std::vector<double> v; z.getData(v); z.dataExtent(NDSize({2})); break; }
    // tags whose position / extent lists do not fit each other or the data
    case 62: { w.tag.position({}); w.tag.extent({1.0, 2.0, 3.0}); (void)util::taggedData(w.tag, (ndsize_t)0); break; }
    case 63: { w.mtag.extents(none); w.mtag.positions(w.da2); std::vector<ndsize_t> idx = {(ndsize_t)(i & 3)}; (void)util::taggedData(w.mtag, idx, (ndsize_t)0); (void)util::featureData(w.mtag, idx, (ndsize_t)0); break; }
    // empty keys
    case 64: { (void)w.f.hasBlock(""); (void)w.b.hasDataArray(""); (void)w.b.getDataArray(""); (void)w.b.getSource(""); (void)w.f.getSection(""); (void)w.sec.getProperty(""); (void)w.tag.hasReference(""); (void)w.grp.hasDataArray(""); (void)w.b.deleteDataArray(""); (void)w.f.deleteBlock(""); break; }
    // a view on everything, its extent setter, I/O at its far corner
    case 65: { DataView v(w.da2, NDSize({2, 3}), NDSize({0, 0})); std::vector<int32_t> x(6); v.getData(DataType::Int32, x.data(), NDSize({2, 3}), NDSize({0, 0})); nixsym_assert(x[5] == 6, "whole-array view");
               try { v.dataExtent(NDSize({1, 1})); } catch (const std::exception &) { } int32_t one = 0; v.getData(DataType::Int32, &one, NDSize({1, 1}), NDSize({(ndsize_t)(i & 3), (ndsize_t)((i >> 2) & 3)})); break; }
    }
}

extern "C" void vh_c16_misuse() {
    nixsym_declare_reach("done");
    World w; build_world(w);
    uint32_t op = nixsym_choice("op", N_MISUSE);
    try { misuse(w, op); } catch (const std::exception &) { }
    // the file is still usable afterwards
    nixsym_assert(w.f.isOpen() && w.f.blockCount() == 2, "the file is still open and intact after the misuse");
    nixsym_reach("done");
}

// positions of any magnitude (also NaN, infinities) through the real index kernels: no undefined float->integer conversion
extern "C" void vh_c16_positions() {
    nixsym_declare_reach("done");
    World w; build_world(w);
    double p = nixsym_f64("p");
    uint32_t m = nixsym_choice("match", 5);
    PositionMatch pm = m == 0 ? PositionMatch::Less : m == 1 ? PositionMatch::LessOrEqual : m == 2 ? PositionMatch::GreaterOrEqual : m == 3 ? PositionMatch::Greater : PositionMatch::Equal;
    uint32_t dim = nixsym_choice("dim", 4);
    try {
        if (dim == 0) w.da1.getDimension(1).asSampledDimension().indexOf(p, pm);
        else if (dim == 1) w.da2.getDimension(1).asSetDimension().indexOf(p, pm);
        else if (dim == 2) w.da2.getDimension(2).asRangeDimension().indexOf(p, pm);
        else w.pos.getDimension(1).asSetDimension().indexOf(p, pm);
    } catch (const std::exception &) { }
    nixsym_reach("done");
}
