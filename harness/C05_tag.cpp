// C05 — Tag retrieval returns exactly the tagged region (real front-end + back-end on the HDF5 model)
#include "tagging.hpp"
using namespace nix;
using namespace vh;

static void run_tag(bool feature) {
    nixsym_declare_reach("returned"); nixsym_declare_reach("out-of-bounds");
    File f = File::open("c05.h5", FileMode::Overwrite);
    Block b = f.createBlock("b", "t");
    Arr r = make_array(b, "data", "");
    size_t rank = r.ext.size();
    uint32_t L = 1 + nixsym_choice("npos", (uint32_t)rank + 1);          // fewer, equal or more position entries than dimensions
    // one "focus" dimension gets fully symbolic position/extent; the others get one of three regions built from their own
    // coordinates (whole axis / last element / beyond the end) - the dimensions are converted independently by the library,
    // so the cross product of all per-dimension cases adds paths, not behaviours
    size_t focus = rank > 1 ? nixsym_choice("focus", (uint32_t)rank) : 0;
    bool has_extent = nixsym_choice("extent", 2) == 1;
    std::vector<double> pos(L), ext(has_extent ? L : 0);
    for (size_t d = 0; d < L; d++) {
        if (d == focus || d >= rank) { pos[d] = sym_pos("p"); if (has_extent) ext[d] = sym_pos("e"); continue; }
        double x0 = r.ax[d].x[0], xl = r.ax[d].x[(size_t)r.ext[d] - 1];
        uint32_t m = nixsym_choice("region", 3);
        pos[d] = m == 0 ? x0 : m == 1 ? xl : xl + 1.0;
        if (has_extent) ext[d] = m == 0 ? xl - x0 : 0.0;
    }
    Tag t = b.createTag("tag", "t", pos);
    if (has_extent) t.extent(ext);
    RangeMatch match = nixsym_choice("match", 2) ? RangeMatch::Inclusive : RangeMatch::Exclusive;
    LinkType lt = LinkType::Tagged;
    if (feature) { uint32_t l = nixsym_choice("link", 3); lt = l == 0 ? LinkType::Tagged : l == 1 ? LinkType::Untagged : LinkType::Indexed; t.createFeature(r.a, lt); }
    else t.addReference(r.a);

    // ---- oracle (one term per dimension, no branching) ----
    std::vector<Sel> sel(rank);
    bool ok = true, pad_wrong = false, zone = false;
    bool whole = feature && lt != LinkType::Tagged;                        // untagged / indexed features are returned whole
    for (size_t d = 0; d < rank; d++) {
        if (whole || d >= L) {
            sel[d] = select_all(r.ext[d]);
            // unspecified dimensions are padded by the library with (first coordinate, last coordinate) used as (position, extent)
            if (!whole) {
                double x0 = r.ax[d].x[0], xl = r.ax[d].x[(size_t)r.ext[d] - 1];
                pad_wrong = pad_wrong | (has_extent && match == RangeMatch::Exclusive) | !(x0 + (xl - x0) == xl);
            }
            continue;
        }
        bool point = !has_extent || ext[d] == 0.0;
        double e = has_extent ? pos[d] + ext[d] : pos[d];
        sel[d] = select_axis(r.ax[d], r.ext[d], pos[d], e, match == RangeMatch::Inclusive, point);
        ok = ok & sel[d].ok;
        zone = zone | axis_eps_zone(r.ax[d], pos[d]) | axis_eps_zone(r.ax[d], e);
    }
    nixsym_finding("C07-eps-zone", zone);
    nixsym_finding("C05-unspecified-dimension-padding", pad_wrong);

    bool threw = false;
    try {
        DataView v = feature ? util::featureData(t, (ndsize_t)0, match) : util::taggedData(t, r.a, match);
        nixsym_reach("returned");
        nixsym_assert(ok, "data was returned although the tagged block is empty or reaches outside the data (an out-of-bounds error was required)");
        check_view(v, r, sel);
    } catch (const std::exception &) { threw = true; }
    if (threw) { nixsym_reach("out-of-bounds"); nixsym_assert(!ok, "an error was raised although the tagged block is non-empty and inside the data"); }
}
extern "C" void vh_c05_tagged() { run_tag(false); }
extern "C" void vh_c05_feature() { run_tag(true); }
