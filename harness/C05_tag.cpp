// C05 — Tag retrieval returns exactly the tagged region (real front-end + back-end on the HDF5 model)
#include "tagging.hpp"
#include <nix/util/dataAccess.hpp>
using namespace nix;
using namespace vh;

static void run_tag(bool feature) {
    nixsym_declare_reach("returned"); nixsym_declare_reach("out-of-bounds");
    File f = File::open("c05.h5", FileMode::Overwrite);
    Block b = f.createBlock("b", "t");
    Arr r = make_array(b, "data", "");
    size_t rank = r.ext.size();
    uint32_t L = 1 + nixsym_choice("npos", (uint32_t)rank + 1);          // fewer, equal or more position entries than dimensions
    std::vector<double> pos(L), ext;
    for (auto &p : pos) { p = nixsym_f64("p"); nixsym_assume(p == p && p > -1e15 && p < 1e15); }
    bool has_extent = nixsym_choice("extent", 2) == 1;
    if (has_extent) { ext.resize(L); for (auto &e : ext) { e = nixsym_f64("e"); nixsym_assume(e == e && e > -1e15 && e < 1e15); } }
    Tag t = b.createTag("tag", "t", pos);
    if (has_extent) t.extent(ext);
    RangeMatch match = nixsym_choice("match", 2) ? RangeMatch::Inclusive : RangeMatch::Exclusive;
    LinkType lt = LinkType::Tagged;
    if (feature) { uint32_t l = nixsym_choice("link", 3); lt = l == 0 ? LinkType::Tagged : l == 1 ? LinkType::Untagged : LinkType::Indexed; t.createFeature(r.a, lt); }
    else t.addReference(r.a);

    // ---- oracle ----
    std::vector<size_t> first(rank, 0), count(rank, 0);
    bool ok = true, zone = false;
    for (size_t d = 0; d < rank; d++) {
        if (feature && lt != LinkType::Tagged) { first[d] = 0; count[d] = (size_t)r.ext[d]; continue; }        // untagged / indexed features: whole array
        if (d >= L) { first[d] = 0; count[d] = (size_t)r.ext[d]; continue; }                                   // unspecified dimension: all elements
        bool point = !has_extent || ext[d] == 0.0;
        double e = has_extent ? pos[d] + ext[d] : pos[d];
        zone = zone || axis_eps_zone(r.ax[d], pos[d]) || (!point && axis_eps_zone(r.ax[d], e));
        if (!select_axis(r.ax[d], pos[d], e, match == RangeMatch::Inclusive, point, first[d], count[d])) ok = false;
    }
    nixsym_finding("C07-eps-zone", zone);
    // unspecified dimensions are padded with (first coordinate, last coordinate) used as (position, extent): in Exclusive mode the last
    // element is dropped, and with a negative first coordinate the end falls short (pinned by testDataAccess, hence a known finding)
    bool padded = L < rank && !(feature && lt != LinkType::Tagged);
    bool pad_wrong = false;
    if (padded) for (size_t d = L; d < rank; d++) pad_wrong = pad_wrong || (has_extent && match == RangeMatch::Exclusive) || r.ax[d].x[0] < 0.0 || r.ax[d].x.size() == 1;
    nixsym_finding("C05-unspecified-dimension-padding", pad_wrong);

    bool threw = false;
    try {
        DataView v = feature ? util::featureData(t, (ndsize_t)0, match) : util::taggedData(t, r.a, match);
        nixsym_reach("returned");
        nixsym_assert(ok, "data was returned although the tagged block is empty or outside the data (an out-of-bounds error was required)");
        if (ok) check_view(v, r, first, count);
    } catch (const std::exception &) { threw = true; }
    if (threw) { nixsym_reach("out-of-bounds"); nixsym_assert(!ok, "an error was raised although the tagged block is non-empty and inside the data"); }
}
extern "C" void vh_c05_tagged() { run_tag(false); }
extern "C" void vh_c05_feature() { run_tag(true); }
