// C13 — dimension descriptors are gap-free and faithful; aliases mirror their array (full stack on the HDF5 model)
#include "world.hpp"
using namespace nix;
using namespace vh;

#ifndef VH_STEPS
#define VH_STEPS 2
#endif

struct Expect { int kind; double interval, offset; bool has_offset; std::vector<double> ticks; std::vector<std::string> labels; std::string label, unit; unsigned col; };

static bool ascending(const std::vector<double> &t) { for (size_t i = 1; i < t.size(); i++) if (t[i - 1] > t[i]) return false; return true; }

static void check_dims(const DataArray &a, const std::vector<Expect> &ex) {
    nixsym_assert(a.dimensionCount() == ex.size(), "dimension count equals number of appended descriptors");
    std::vector<Dimension> all = a.dimensions();
    nixsym_assert(all.size() == ex.size(), "dimensions() lists every descriptor");
    for (size_t i = 0; i < ex.size(); i++) {
        Dimension d = a.getDimension(i + 1);
        nixsym_assert((bool)d && d.index() == i + 1, "descriptors are numbered 1..n without gaps, in append order");
        const Expect &e = ex[i];
        if (e.kind == 0) {
            nixsym_assert(d.dimensionType() == DimensionType::Set, "kind reads back (set)");
            nixsym_assert(d.asSetDimension().labels() == e.labels, "labels read back");
        } else if (e.kind == 1) {
            nixsym_assert(d.dimensionType() == DimensionType::Range, "kind reads back (range)");
            RangeDimension r = d.asRangeDimension();
            nixsym_assert(r.ticks() == e.ticks, "ticks read back");
            nixsym_assert(ascending(r.ticks()), "stored ticks are ascending");
            nixsym_assert((e.label.empty() ? !r.label() : (r.label() && *r.label() == e.label)), "range label reads back");
            nixsym_assert((e.unit.empty() ? !r.unit() : (r.unit() && *r.unit() == e.unit)), "range unit reads back");
        } else if (e.kind == 2) {
            nixsym_assert(d.dimensionType() == DimensionType::Sample, "kind reads back (sampled)");
            SampledDimension s = d.asSampledDimension();
            nixsym_assert(s.samplingInterval() == e.interval, "sampling interval reads back");
            nixsym_assert(s.samplingInterval() > 0.0, "stored sampling interval is positive");
            double off = s.offset() ? *s.offset() : 0.0;
            nixsym_assert(off == e.offset, "offset reads back");
            nixsym_assert((e.label.empty() ? !s.label() : (s.label() && *s.label() == e.label)), "sampled label reads back");
            nixsym_assert((e.unit.empty() ? !s.unit() : (s.unit() && *s.unit() == e.unit)), "sampled unit reads back");
        } else if (e.kind == 4) {
            nixsym_assert(d.dimensionType() == DimensionType::Range && d.asRangeDimension().alias(), "kind reads back (alias range)");
            nixsym_assert(d.asRangeDimension().ticks() == e.ticks, "alias ticks are the array's data");
        } else if (e.kind == 3) {
            nixsym_assert(d.dimensionType() == DimensionType::DataFrame, "kind reads back (data frame)");
            boost::optional<unsigned> ci = d.asDataFrameDimension().columnIndex();
            nixsym_assert(ci && *ci == e.col, "data-frame column reads back");
        }
    }
}

extern "C" void vh_c13_append() {
    nixsym_declare_reach("appended"); nixsym_declare_reach("rejected"); nixsym_declare_reach("reopened");
    World w;
    build_world(w);
    DataArray a = w.b.createDataArray("cube", "t", DataType::Double, NDSize({2, 2, 2}));
    std::vector<Expect> ex;
    for (int step = 0; step < VH_STEPS; step++) {
        uint32_t k = nixsym_choice("kind", 5);
        Expect e; e.kind = (int)k; e.has_offset = false; e.interval = 0; e.offset = 0; e.col = 0;
        bool valid = true, ok = false;
        try {
            if (k == 0) {
                uint32_t nl = nixsym_choice("nlabels", 3);
                for (uint32_t i = 0; i < nl; i++) e.labels.push_back(i ? "lb" : "la");
                a.appendSetDimension(e.labels);
            } else if (k == 1) {
                uint32_t nt = nixsym_choice("nticks", 4);
                for (uint32_t i = 0; i < nt; i++) { double t = nixsym_f64("tick"); nixsym_assume(t == t); e.ticks.push_back(t); }
                bool lab = nixsym_choice("withlabel", 2) == 1;
                e.label = lab ? "x" : ""; e.unit = lab ? "ms" : "";
                valid = nt > 0 && ascending(e.ticks);
                a.appendRangeDimension(e.ticks, e.label, e.unit);
            } else if (k == 2) {
                e.interval = nixsym_f64("interval"); e.offset = nixsym_f64("offset");
                nixsym_assume(e.interval == e.interval && e.offset == e.offset);
                bool lab = nixsym_choice("withlabel", 2) == 1;
                e.label = lab ? "time" : ""; e.unit = lab ? "s" : "";
                valid = e.interval > 0.0;
                a.appendSampledDimension(e.interval, e.label, e.unit, e.offset);
            } else if (k == 3) {
                e.col = nixsym_choice("col", 5);           // the frame has 3 columns
                valid = e.col < 3;
                a.appendDataFrameDimension(w.df, e.col);
            } else {
                valid = false;                              // alias on a 3-D array is never allowed
                e.kind = 4;
                a.appendAliasRangeDimension();
            }
            ok = true;
        } catch (const std::exception &) { ok = false; }
        nixsym_assert(ok == valid, "append succeeds exactly for legal descriptor parameters (interval > 0, ticks ascending and non-empty, column in range)");
        if (ok) { ex.push_back(e); nixsym_reach("appended"); } else nixsym_reach("rejected");
        check_dims(a, ex);
    }
    drop_handles(w); a = none; w.f.close();
    File g = File::open(WORLD_FILE, FileMode::ReadOnly);
    check_dims(g.getBlock("blk").getDataArray("cube"), ex);
    nixsym_reach("reopened");
}

// histories with deleteDimensions on a 1-D array, where an alias is legal exactly while there is no descriptor: every step is
// observed through the handle that made the change AND through a freshly obtained one, then after reopen
#ifndef VH_ASTEPS
#define VH_ASTEPS 3
#endif
extern "C" void vh_c13_alias_history() {
    nixsym_declare_reach("aliased"); nixsym_declare_reach("deleted"); nixsym_declare_reach("reopened");
    World w;
    build_world(w);
    DataArray a = w.b.createDataArray("line", "t", DataType::Double, NDSize({3}));
    { std::vector<double> v = {1.0, 2.0, 4.0}; a.setData(v); }
    std::vector<Expect> ex;
    for (int step = 0; step < VH_ASTEPS; step++) {
        uint32_t op = nixsym_choice("op", 4);
        Expect e; e.kind = 0; e.has_offset = false; e.interval = 0; e.offset = 0; e.col = 0;
        bool valid = true, ok = false;
        try {
            if (op == 0) { e.kind = 0; e.labels.push_back("la"); a.appendSetDimension(e.labels); }
            else if (op == 1) { e.kind = 2; e.interval = 0.5; e.offset = 1.0; e.label = "time"; e.unit = "s"; a.appendSampledDimension(e.interval, e.label, e.unit, e.offset); }
            else if (op == 2) { a.deleteDimensions(); }
            else { e.kind = 4; e.ticks = {1.0, 2.0, 4.0}; valid = ex.empty(); a.appendAliasRangeDimension(); }
            ok = true;
        } catch (const std::exception &) { ok = false; }
        nixsym_assert(ok == valid, "an alias is accepted exactly on a 1-D array without descriptors; the other steps always succeed");
        if (ok && op == 2) { ex.clear(); nixsym_reach("deleted"); }
        else if (ok) { ex.push_back(e); if (op == 3) nixsym_reach("aliased"); }
        check_dims(a, ex);
        check_dims(w.b.getDataArray("line"), ex);
    }
    drop_handles(w); a = none; w.f.close();
    File g = File::open(WORLD_FILE, FileMode::ReadOnly);
    check_dims(g.getBlock("blk").getDataArray("line"), ex);
    nixsym_reach("reopened");
}

// setters on existing descriptors: every entry point keeps interval positive and ticks ascending, and reads back
extern "C" void vh_c13_modify() {
    nixsym_declare_reach("done");
    World w;
    build_world(w);
    SampledDimension sd = w.da1.getDimension(1).asSampledDimension();
    RangeDimension rd = w.da2.getDimension(2).asRangeDimension();
    SetDimension st = w.da2.getDimension(1).asSetDimension();
    double iv = nixsym_f64("interval"), off = nixsym_f64("offset"), t0 = nixsym_f64("t0"), t1 = nixsym_f64("t1");
    nixsym_assume(iv == iv && off == off && t0 == t0 && t1 == t1);
    bool ok;
    try { sd.samplingInterval(iv); ok = true; } catch (const std::exception &) { ok = false; }
    nixsym_assert(ok == (iv > 0.0), "samplingInterval setter accepts exactly positive intervals");
    nixsym_assert(sd.samplingInterval() == (ok ? iv : 0.5) && sd.samplingInterval() > 0.0, "interval reads back / stays positive");
    sd.offset(off);
    nixsym_assert(sd.offset() && *sd.offset() == off, "offset setter reads back");
    try { rd.ticks({t0, t1}); ok = true; } catch (const std::exception &) { ok = false; }
    nixsym_assert(ok == (t0 <= t1), "ticks setter accepts exactly ascending ticks");
    std::vector<double> now = rd.ticks();
    nixsym_assert(ok ? (now.size() == 2 && now[0] == t0 && now[1] == t1) : (now.size() == 3 && now[0] == 1.0 && now[2] == 4.0), "ticks read back / unchanged when rejected");
    st.labels({"p", "q", "r"});
    nixsym_assert(st.labels().size() == 3 && st.labels()[2] == "r", "labels setter reads back");
    sd.label("L"); sd.unit("ms"); rd.label("R"); rd.unit("kHz");
    nixsym_assert(*sd.label() == "L" && *sd.unit() == "ms" && *rd.label() == "R" && *rd.unit() == "kHz", "label/unit setters read back");
    bool threw = false; try { sd.unit("furlong"); } catch (const std::exception &) { threw = true; }
    nixsym_assert(threw && *sd.unit() == "ms", "non-SI unit rejected, old unit kept");
    nixsym_assert(w.da1.deleteDimensions() && w.da1.dimensionCount() == 0 && w.da1.dimensions().empty(), "deleteDimensions leaves none");
    nixsym_reach("done");
}

// alias range dimension mirrors the array in both directions
extern "C" void vh_c13_alias() {
    nixsym_declare_reach("done");
    World w;
    build_world(w);
    DataArray a = w.b.createDataArray("al", "t", DataType::Double, NDSize({3}));
    double v0 = nixsym_f64("v0"), v1 = nixsym_f64("v1"), v2 = nixsym_f64("v2");
    nixsym_assume(v0 == v0 && v1 == v1 && v2 == v2);
    { std::vector<double> v = {v0, v1, v2}; a.setData(v); }
    a.unit("ms"); a.label("latency");
    RangeDimension r = a.appendAliasRangeDimension();
    nixsym_assert(r.alias() && a.dimensionCount() == 1 && a.getDimension(1).index() == 1, "alias is the first and only descriptor");
    std::vector<double> t = r.ticks();
    nixsym_assert(t.size() == 3 && t[0] == v0 && t[1] == v1 && t[2] == v2, "alias ticks are the array's data");
    nixsym_assert(r.unit() && *r.unit() == "ms" && r.label() && *r.label() == "latency", "alias label and unit are the array's");
    // array -> alias
    double n1 = nixsym_f64("n1"); nixsym_assume(n1 == n1);
    { std::vector<double> v = {n1}; a.setData(DataType::Double, v.data(), NDSize({1}), NDSize({1})); }
    a.unit("s"); a.label("lat2");
    t = r.ticks();
    nixsym_assert(t.size() == 3 && t[1] == n1 && *r.unit() == "s" && *r.label() == "lat2", "changes of the array show through the alias");
    // alias -> array
    r.unit("kHz"); r.label("freq");
    nixsym_assert(a.unit() && *a.unit() == "kHz" && a.label() && *a.label() == "freq", "changes through the alias show in the array");
    // ticks written through the alias (shorter, equal or longer than the array) ARE the array's data afterwards, in both directions
    {
        uint32_t len = 1 + nixsym_choice("alias_ticks", 4);
        std::vector<double> nt(len);
        for (uint32_t i = 0; i < len; i++) { nt[i] = nixsym_f64("at"); nixsym_assume(nt[i] == nt[i]); if (i) nixsym_assume(nt[i - 1] < nt[i]); }
        r.ticks(nt);
        std::vector<double> back = r.ticks(), data;
        a.getData(data);
        nixsym_assert(back == nt, "ticks written through the alias read back exactly");
        nixsym_assert(data == nt && a.dataExtent() == NDSize({len}), "ticks written through the alias are the array's data (extent and values)");
        bool asc = true; for (size_t i = 1; i < back.size(); i++) asc = asc && back[i - 1] < back[i];
        nixsym_assert(asc, "alias ticks ascending");
        std::string fname = WORLD_FILE;
        RangeDimension r2 = w.b.getDataArray("al").getDimension(1).asRangeDimension();
        nixsym_assert(r2.ticks() == nt, "a second handle sees the same ticks");
    }
    bool threw = false; try { a.appendAliasRangeDimension(); } catch (const std::exception &) { threw = true; }
    nixsym_assert(threw && a.dimensionCount() == 1, "a second alias is rejected");
    threw = false; try { w.da2.appendAliasRangeDimension(); } catch (const std::exception &) { threw = true; }
    nixsym_assert(threw, "alias on a 2-D array is rejected");
    a.deleteDimensions();
    nixsym_assert(a.dimensionCount() == 0, "deleting the dimensions leaves none");
    nixsym_reach("done");
}
