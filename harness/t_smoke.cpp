#include "nixsym.h"
#include <nix/Version.hpp>
#include <nix/NDSize.hpp>
#include <string>
#include <vector>
#include <map>
using namespace nix;
extern "C" void vh_smoke1() {
    int a = nixsym_i32("a"), b = nixsym_i32("b"), c = nixsym_i32("c");
    int x = nixsym_i32("x"), y = nixsym_i32("y"), z = nixsym_i32("z");
    FormatVersion p{a,b,c}, q{x,y,z};
    bool lt = p < q, gt = p > q, eq = p == q;
    nixsym_declare_reach("end");
    nixsym_assert((lt?1:0)+(gt?1:0)+(eq?1:0)==1, "trichotomy");
    nixsym_reach("end");
}
extern "C" void vh_smoke2() {
    // strings, vectors, maps, exceptions
    std::string s = "hello";
    s += " world, this is a long string beyond sso";
    std::vector<std::string> v; v.push_back(s); v.push_back("x");
    std::map<std::string,int> m; m["a"]=1; m["b"]=2; m["c"]=3; m.erase("b");
    nixsym_assert(m.size()==2 && m.count("c")==1 && m.count("b")==0, "map");
    nixsym_assert(v[0].size()==s.size(), "vec");
    bool caught=false;
    try { NDSize n(2, 1); uint64_t idx = nixsym_u64("idx"); n[idx] = 3; }
    catch (const std::exception &e) { caught = true; nixsym_reach("caught"); }
    nixsym_declare_reach("caught");
    nixsym_declare_reach("notcaught");
    if (!caught) nixsym_reach("notcaught");
}
#include <cmath>
// floating-point branching: every feasible side of short-circuit conditions over ceil/floor/fabs must be explored
static bool zone_branchy(double p) {
    double xc = std::ceil(p), xf = std::floor(p);
    const double eps = 2.220446049250313e-16;
    return (xc != p && std::fabs(xc - p) <= eps) || (xf != p && std::fabs(xf - p) <= eps);
}
extern "C" void vh_smoke_fp() {
    nixsym_declare_reach("integer"); nixsym_declare_reach("zone"); nixsym_declare_reach("plain"); nixsym_declare_reach("cast-ok");
    double p = nixsym_f64("p");
    nixsym_assume(p == p && p >= -4.0 && p <= 255.0);
    bool z = zone_branchy(p);
    if (std::ceil(p) == p) { nixsym_reach("integer"); nixsym_assert(!z, "an integer is not in the zone"); }
    else if (z) nixsym_reach("zone"); else nixsym_reach("plain");
    if (p >= 0.0) {
        double t = std::round(p);
        if (std::fabs(t - p) <= 2.220446049250313e-16) {
            unsigned long long i = (unsigned long long)t;
            nixsym_assume(i <= 257);
            nixsym_reach("cast-ok");
            nixsym_assert((double)i == t, "integer round trip");
        }
    }
}
