// C17 — position-based slices and DataView windows address exactly their region
#include "tagging.hpp"
using namespace nix;
using namespace vh;

// the private translation step of DataView, called directly (K tier): no I/O, full 64-bit symbolic requests
NDSize view_transform(const DataView *self, const NDSize &cnt, const NDSize &off) __asm__("_ZNK3nix8DataView21transform_coordinatesERKNS_10NDSizeBaseIyEES4_");

static bool sum_within(uint64_t a, uint64_t b, uint64_t limit) {       // a + b <= limit in unbounded arithmetic
    return (a <= limit) & (b <= limit - a);
}

static DataArray small_array(Block &b, size_t rank, NDSize &ext) {
    ext = rank == 1 ? NDSize({5}) : NDSize({3, 4});
    DataArray a = b.createDataArray("a", "t", DataType::Double, ext);
    std::vector<double> v((size_t)ext.nelms());
    for (size_t i = 0; i < v.size(); i++) v[i] = (double)(rank == 1 ? i : (i / 4) * 10 + i % 4);
    a.setData(DataType::Double, v.data(), ext, NDSize(rank, 0));
    return a;
}

// window construction: any 64-bit offset/count
extern "C" void vh_c17_view_ctor() {
    nixsym_declare_reach("constructed"); nixsym_declare_reach("rejected");
    File f = File::open("c17.h5", FileMode::Overwrite); Block b = f.createBlock("b", "t");
    size_t rank = 1 + nixsym_choice("rank", 2); NDSize ext;
    DataArray a = small_array(b, rank, ext);
    size_t vr = nixsym_choice("viewrank", 3);           // 0: rank of the data; 1: one less; 2: one more
    size_t r2 = vr == 0 ? rank : vr == 1 ? rank - 1 : rank + 1;
    NDSize cnt(r2, 0), off(r2, 0);
    bool inside = r2 == rank;
    for (size_t d = 0; d < r2; d++) { cnt[d] = nixsym_u64("count"); off[d] = nixsym_u64("offset"); if (d < rank) inside = inside & sum_within(off[d], cnt[d], ext[d]); }
    bool threw = false;
    try { DataView v(a, cnt, off); nixsym_reach("constructed"); nixsym_assert(inside, "a window reaching outside the array (or of the wrong rank) was constructed"); nixsym_assert(v.dataExtent() == cnt, "extent of the view is the window size"); }
    catch (const std::exception &) { threw = true; }
    if (threw) { nixsym_reach("rejected"); nixsym_assert(!inside, "a window inside the array was rejected"); }
}

// view-relative request -> array coordinates: any 64-bit count/offset
extern "C" void vh_c17_view_coords() {
    nixsym_declare_reach("admitted"); nixsym_declare_reach("rejected");
    File f = File::open("c17.h5", FileMode::Overwrite); Block b = f.createBlock("b", "t");
    size_t rank = 1 + nixsym_choice("rank", 2); NDSize ext;
    DataArray a = small_array(b, rank, ext);
    NDSize wc(rank, 0), wo(rank, 0);
    for (size_t d = 0; d < rank; d++) { wo[d] = nixsym_choice("wo", 3); wc[d] = 1 + nixsym_choice("wc", 2); nixsym_assume(wo[d] + wc[d] <= ext[d]); }      // window inside the array (offset 0..2, size 1..2)
    DataView v(a, wc, wo);
    bool with_off = nixsym_choice("with_offset", 2) == 1;
    NDSize cnt(rank, 0), off(with_off ? rank : 0, 0);
    bool inside = true;
    for (size_t d = 0; d < rank; d++) {
        cnt[d] = nixsym_u64("cnt"); if (with_off) off[d] = nixsym_u64("off");
        inside = inside & sum_within(with_off ? off[d] : 0, cnt[d], wc[d]);
    }
    bool threw = false, oob = false;
    try {
        NDSize base = view_transform(&v, cnt, off);
        nixsym_reach("admitted");
        nixsym_assert(inside, "a request extending past the window was admitted");
        bool at = base.size() == rank;
        for (size_t d = 0; d < rank && at; d++) at = at & (base[d] == wo[d] + (with_off ? off[d] : 0));
        nixsym_assert(at, "the request is addressed at window origin + offset");
    } catch (const nix::OutOfBounds &) { threw = true; oob = true; } catch (const std::exception &) { threw = true; }
    if (threw) { nixsym_reach("rejected"); nixsym_assert(!inside, "a request inside the window was rejected"); nixsym_assert(oob, "the rejection is an out-of-bounds error"); }
}

// reads and writes through a view touch exactly the requested block inside the window
extern "C" void vh_c17_view_io() {
    nixsym_declare_reach("read"); nixsym_declare_reach("written"); nixsym_declare_reach("rejected");
    File f = File::open("c17.h5", FileMode::Overwrite); Block b = f.createBlock("b", "t");
    size_t rank = 1 + nixsym_choice("rank", 2); NDSize ext;
    DataArray a = small_array(b, rank, ext);
    NDSize wc(rank, 0), wo(rank, 0);
    for (size_t d = 0; d < rank; d++) { wo[d] = nixsym_choice("wo", 2); wc[d] = 1 + nixsym_choice("wc", 2); nixsym_assume(wo[d] + wc[d] <= ext[d]); }
    DataView v(a, wc, wo);
    NDSize cnt(rank, 0), off(rank, 0);
    bool inside = true;
    for (size_t d = 0; d < rank; d++) { cnt[d] = nixsym_choice("cnt", 4); off[d] = nixsym_choice("off", 3); inside = inside && off[d] + cnt[d] <= wc[d]; }
    bool write = nixsym_choice("write", 2) == 1;
    std::vector<double> before((size_t)ext.nelms()), after((size_t)ext.nelms());
    a.getData(DataType::Double, before.data(), ext, NDSize(rank, 0));
    size_t n = (size_t)cnt.nelms();
    std::vector<double> buf(n ? n : 1, -1.0);
    for (size_t i = 0; i < n; i++) if (write) { buf[i] = nixsym_f64("w"); nixsym_assume(buf[i] == buf[i]); }
    // requests come in any order: optionally the same view object has already served a valid request - the largest one that fits at
    // the same offset (the whole window if the offset itself is outside)
    if (nixsym_choice("warm", 2) == 1) {
        NDSize c0(rank, 0), o0 = off; bool fits = true;
        for (size_t d = 0; d < rank; d++) fits = fits && off[d] < wc[d];
        if (!fits) o0 = NDSize(rank, 0);
        for (size_t d = 0; d < rank; d++) c0[d] = wc[d] - o0[d];
        std::vector<double> tmp((size_t)c0.nelms());
        v.getData(DataType::Double, tmp.data(), c0, o0);
    }
    bool threw = false;
    try {
        if (n == 0) throw std::runtime_error("empty request: nothing to transfer");      // zero counts mean "whole view" to the library: not part of this check
        if (write) v.setData(DataType::Double, buf.data(), cnt, off); else v.getData(DataType::Double, buf.data(), cnt, off);
        nixsym_assert(inside, "a request crossing the window edge transferred data");
    } catch (const std::exception &) { threw = true; }
    a.getData(DataType::Double, after.data(), ext, NDSize(rank, 0));
    size_t W = rank == 1 ? 1 : (size_t)ext[1];
    if (threw || n == 0) {
        if (n) nixsym_reach("rejected");
        if (n) nixsym_assert(!inside, "a request inside the window was rejected");
        nixsym_assert(before == after, "a rejected request transferred no data");
        return;
    }
    // element (i,j) of the request <-> array element (wo+off+i, ...)
    size_t k = 0;
    std::vector<char> touched(before.size(), 0);
    for (size_t i = 0; i < (size_t)cnt[0]; i++) for (size_t j = 0; j < (rank == 1 ? 1 : (size_t)cnt[1]); j++, k++) {
        size_t r0 = (size_t)(wo[0] + off[0]) + i, r1 = rank == 1 ? 0 : (size_t)(wo[1] + off[1]) + j;
        size_t idx = rank == 1 ? r0 : r0 * W + r1;
        touched[idx] = 1;
        if (write) nixsym_assert(after[idx] == buf[k], "write through the view lands at window origin + offset");
        else nixsym_assert(buf[k] == before[idx], "read through the view comes from window origin + offset");
    }
    for (size_t i = 0; i < before.size(); i++) if (!touched[i]) nixsym_assert(after[i] == before[i], "elements outside the requested block are untouched");
    nixsym_reach(write ? "written" : "read");
    if (write) nixsym_reach("read"); else nixsym_reach("written");
}

// util::dataSlice: per-dimension start/end positions
extern "C" void vh_c17_slice() {
    nixsym_declare_reach("returned"); nixsym_declare_reach("error");
    File f = File::open("c17s.h5", FileMode::Overwrite);
    Block b = f.createBlock("b", "t");
    Arr r = make_array(b, "data", "");
    size_t rank = r.ext.size();
    uint32_t L = nixsym_choice("nentries", (uint32_t)rank + 2);            // 0..rank entries, rank+1 => invalid_argument
    size_t focus = rank > 1 ? nixsym_choice("focus", (uint32_t)rank) : 0;
    std::vector<double> start(L), end(L);
    for (size_t d = 0; d < L; d++) {
        if (d == focus || d >= rank) { start[d] = sym_pos("s"); end[d] = sym_pos("e"); continue; }
        double x0 = r.ax[d].x[0], xl = r.ax[d].x[(size_t)r.ext[d] - 1];
        uint32_t m = nixsym_choice("region", 3);
        start[d] = m == 0 ? x0 : m == 1 ? xl : xl + 1.0;
        end[d] = m == 0 ? xl : m == 1 ? xl : xl + 2.0;
    }
    RangeMatch match = nixsym_choice("match", 2) ? RangeMatch::Inclusive : RangeMatch::Exclusive;
    std::vector<Sel> sel(rank);
    bool ok = L <= rank;
    const double eps = 2.220446049250313e-16;
    for (size_t d = 0; d < rank; d++) {
        if (d >= L) {
            // unspecified dimensions: all elements, in both modes
            sel[d] = select_all(r.ext[d]);
            continue;
        }
        Sel s = select_axis(r.ax[d], r.ext[d], start[d], end[d], match == RangeMatch::Inclusive, false);
        Sel p = select_axis(r.ax[d], r.ext[d], start[d], start[d], true, true);
        bool tiny = !(end[d] - start[d] > eps);                             // the library's point rule for slices
        bool use_point = (s.count == 0) & tiny;
        sel[d].first = use_point ? p.first : s.first; sel[d].count = use_point ? p.count : s.count; sel[d].ok = use_point ? p.ok : s.ok;
        ok = ok & sel[d].ok & !(start[d] > end[d]);
    }
    bool threw = false;
    try {
        DataView v = util::dataSlice(r.a, start, end, {}, match);
        nixsym_reach("returned");
        nixsym_assert(ok, "a slice was returned although start > end, the region is empty, or it leaves the data");
        check_view(v, r, sel);
    } catch (const std::exception &) { threw = true; }
    if (threw) { nixsym_reach("error"); nixsym_assert(!ok, "an error was raised although the slice region is non-empty and inside the data"); }
}
