// C11 — after close() the file is released and earlier handles fail instead of touching it (model level; durability is N/A)
#include "world.hpp"
#include "h5model.h"
using namespace nix;
using namespace vh;

#define N_HANDLES 16
static void touch(World &w, Dimension &dim, SampledDimension &sdim, DataView &dv, uint32_t h) {
    switch (h) {
    case 0:  (void)w.b.name(); break;
    case 1:  (void)w.da1.dataExtent(); break;
    case 2:  { std::vector<double> v; w.da1.getData(v); break; }
    case 3:  (void)dim.dimensionType(); (void)sdim.samplingInterval(); break;
    case 4:  (void)w.tag.position(); break;
    case 5:  (void)w.mtag.positions(); break;
    case 6:  (void)w.sec.name(); break;
    case 7:  (void)w.prop.values(); break;
    case 8:  { std::vector<double> v(1); dv.getData(DataType::Double, v.data(), NDSize({1}), NDSize({0})); break; }
    case 9:  (void)w.grp.dataArrayCount(); break;
    case 10: (void)w.src.sourceCount(); break;
    case 11: (void)w.df.rows(); break;
    case 12: (void)w.tfeat.linkType(); break;
    case 13: (void)w.f.blockCount(); break;
    case 14: w.b.createDataArray("late", "t", DataType::Double, NDSize({1})); break;
    case 15: (void)w.f.createBlock("late", "t"); break;
    }
}

extern "C" void vh_c11_close() {
    nixsym_declare_reach("released"); nixsym_declare_reach("handle-fails");
    World w;
    build_world(w);
    Dimension dim = w.da1.getDimension(1);
    SampledDimension sdim = dim.asSampledDimension();
    DataView dv = w.tag.taggedData((size_t)0);
    World copy = w;                                   // copies share the same back-end objects
    bool drop_some = nixsym_choice("drop", 2) == 1;   // with and without live handles at close time
    if (drop_some) { drop_handles(copy); }
    nixsym_assert(w.f.flush(), "flush succeeds on an open file");
    nixsym_assert(h5m_open_ids(WORLD_FILE, 1) > 0, "file is open");
    w.f.close();
    nixsym_assert(!w.f.isOpen(), "isOpen() is false after close");
    nixsym_assert(h5m_open_ids(WORLD_FILE, 1) == 0, "close() left HDF5 identifiers of the file open");
    nixsym_assert(!h5m_file_is_open(WORLD_FILE), "file released");
    nixsym_reach("released");
    w.f.close();                                      // second close is a no-op
    nixsym_assert(h5m_open_ids(WORLD_FILE, 1) == 0, "second close changed something");
    unsigned long long m0 = h5m_file_mutations(WORLD_FILE);
    uint32_t h = nixsym_choice("handle", N_HANDLES);
    bool threw = false;
    try { touch(w, dim, sdim, dv, h); } catch (const std::exception &) { threw = true; }
    nixsym_assert(threw, "a handle obtained before close() must fail with an exception afterwards");
    if (threw) nixsym_reach("handle-fails");
    nixsym_assert(h5m_file_mutations(WORLD_FILE) == m0 && h5m_open_ids(WORLD_FILE, 1) == 0, "a stale handle touched or re-opened the file");
    // the same process can now truncate and reuse the path
    File g = File::open(WORLD_FILE, FileMode::Overwrite);
    nixsym_assert(g.isOpen() && g.blockCount() == 0, "path can be reopened with truncation after close");
}

// many live handles at close time: close() has to release every one of them, however many there are
#ifndef VH_MANY
#define VH_MANY 70
#endif
extern "C" void vh_c11_many() {
    nixsym_declare_reach("released");
    File f = File::open("many.h5", FileMode::Overwrite);
    Block b = f.createBlock("b", "t");
    std::vector<DataArray> arrays; std::vector<Section> secs;
    uint32_t n = nixsym_choice("many", 2) == 0 ? 3 : VH_MANY;
    for (uint32_t i = 0; i < n; i++) arrays.push_back(b.createDataArray("a" + util::numToStr((unsigned long long)i), "t", DataType::Double, NDSize({1})));
    for (uint32_t i = 0; i < n / 2; i++) secs.push_back(f.createSection("s" + util::numToStr((unsigned long long)i), "t"));
    nixsym_assert(h5m_open_ids("many.h5", 0) >= (int)n, "the handles keep HDF5 objects open");
    f.close();
    nixsym_assert(h5m_open_ids("many.h5", 1) == 0 && !h5m_file_is_open("many.h5"), "close() left HDF5 identifiers of the file open (file not released)");
    bool threw = false;
    try { (void)arrays.back().dataExtent(); } catch (const std::exception &) { threw = true; }
    nixsym_assert(threw, "the last of many handles still works after close()");
    threw = false;
    try { (void)secs.back().name(); } catch (const std::exception &) { threw = true; }
    nixsym_assert(threw, "a section handle still works after close()");
    File g = File::open("many.h5", FileMode::ReadOnly);
    nixsym_assert(g.getBlock("b").dataArrayCount() == n, "everything created before close is there after reopen");
    nixsym_reach("released");
}

// two sessions on the same path in one process (a writer with every handle alive, and a second open of the file): once both are
// closed - in either order - no identifier of the file is left open and the path can be truncated
extern "C" void vh_c11_two_sessions() {
    nixsym_declare_reach("released");
    World w;
    build_world(w);
    w.f.flush();
    File r = File::open(WORLD_FILE, FileMode::ReadOnly);
    Block rb = r.getBlock("blk");
    DataArray ra = rb.getDataArray("da1");
    bool reader_first = nixsym_choice("reader_first", 2) == 1;
    bool keep = nixsym_choice("keep_handles", 2) == 1;          // entity handles of the writer alive or dropped at its close
    if (reader_first) r.close(); else w.f.close();
    if (!keep) { drop_handles(w); rb = none; ra = none; }
    if (reader_first) w.f.close(); else r.close();
    nixsym_assert(!w.f.isOpen() && !r.isOpen(), "both sessions report closed");
    nixsym_assert(h5m_open_ids(WORLD_FILE, 1) == 0 && !h5m_file_is_open(WORLD_FILE), "after both sessions are closed an HDF5 identifier of the file is still open (file not released)");
    nixsym_reach("released");
    File g = File::open(WORLD_FILE, FileMode::Overwrite);
    nixsym_assert(g.isOpen() && g.blockCount() == 0, "path can be reopened with truncation after both sessions closed");
}
