// A small but fully linked NIX file built through the public API on the HDF5 model; shared by the history harnesses.
#pragma once
#include "vh.hpp"

namespace vh {

struct World {
    File f;
    Block b, b2;
    DataArray da1, da2, pos, ext, feat, da_u, b2_pos;
    DataFrame df, b2_df;
    Tag tag, tag_u; MultiTag mtag; Group grp;
    Source src, src_child, src_child2, src_leaf, src2;
    Section sec, sec_child, sec_grand, sec2;
    Property prop, prop2;
    Feature tfeat, mfeat;
};

static const char *WORLD_FILE = "world.h5";
// a legal entity name that has the shape of a UUID (name-or-id resolution must still treat it as a name)
static const char *UUID_NAME = "sessionA-2024-0001-0002-000000000003";

inline void build_world(World &w, FileMode mode = FileMode::Overwrite) {
    w.f = File::open(WORLD_FILE, mode);
    w.sec = w.f.createSection("sec", "recording");
    w.sec_child = w.sec.createSection("child", "subject");
    w.sec_grand = w.sec_child.createSection("grand", "detail");          // depth 3, used as metadata below
    w.sec2 = w.f.createSection("sec2", "other");
    w.sec2.link(w.sec);
    w.prop = w.sec.createProperty("temperature", DataType::Double);
    w.prop.values({Variant(36.6), Variant(37.1)});
    w.prop.unit("K");
    w.prop2 = w.sec_child.createProperty("name", Variant(std::string("rat")));

    w.b = w.f.createBlock("blk", "session");
    w.b.metadata(w.sec);
    w.b2 = w.f.createBlock("blk2", "session");
    w.src = w.b.createSource("src", "electrode");
    w.src_child = w.src.createSource("child", "channel");
    w.src_child2 = w.src.createSource("child2", "channel");
    w.src_leaf = w.src_child2.createSource("leaf", "contact");
    w.src2 = w.b.createSource("src2", "electrode");
    w.src.metadata(w.sec_child);

    w.da1 = w.b.createDataArray("da1", "signal", DataType::Double, NDSize({4}));
    { std::vector<double> v = {1.5, 2.5, 3.5, 4.5}; w.da1.setData(v); }
    w.da1.appendSampledDimension(0.5, "time", "s", 1.0);
    w.da1.unit("mV"); w.da1.label("voltage");
    w.da1.addSource(w.src); w.da1.metadata(w.sec);
    w.da2 = w.b.createDataArray("da2", "image", DataType::Int32, NDSize({2, 3}));
    { std::vector<int32_t> v = {1, 2, 3, 4, 5, 6}; w.da2.setData(DataType::Int32, v.data(), NDSize({2, 3}), NDSize({0, 0})); }
    w.da2.appendSetDimension({"r0", "r1"});
    w.da2.appendRangeDimension({1.0, 2.0, 4.0}, "x", "mm");
    w.da2.addSource(w.src_child2);
    w.da2.metadata(w.sec_grand);
    w.da_u = w.b.createDataArray(UUID_NAME, "signal", DataType::Double, NDSize({2}));
    { std::vector<double> v = {0.5, 0.25}; w.da_u.setData(v); }
    w.da_u.appendSetDimension();
    w.b2_pos = w.b2.createDataArray("pos", "positions", DataType::Double, NDSize({2}));      // same name as blk/pos, other block
    { std::vector<double> v = {3.0, 4.0}; w.b2_pos.setData(v); }
    w.pos = w.b.createDataArray("pos", "positions", DataType::Double, NDSize({2}));
    { std::vector<double> v = {1.0, 2.0}; w.pos.setData(v); }
    w.pos.appendSetDimension();
    w.ext = w.b.createDataArray("ext", "extents", DataType::Double, NDSize({2}));
    { std::vector<double> v = {0.5, 1.0}; w.ext.setData(v); }
    w.ext.appendSetDimension();
    w.feat = w.b.createDataArray("feat", "feature", DataType::Double, NDSize({2}));
    { std::vector<double> v = {10.0, 20.0}; w.feat.setData(v); }

    w.df = w.b.createDataFrame("df", "table", {{"id", "", DataType::Int64}, {"name", "", DataType::String}, {"val", "mV", DataType::Double}});
    w.df.rows(2);
    w.df.writeRow(0, {Variant((int64_t)7), Variant(std::string("seven")), Variant(0.25)});
    w.feat.appendDataFrameDimension(w.df, 2);                              // a data frame held by a dimension (block with tags and a group)
    w.b2_df = w.b2.createDataFrame("df2", "table", {{"k", "", DataType::Int64}});
    w.b2_df.rows(2);
    w.b2_pos.appendDataFrameDimension(w.b2_df);                            // ... and in a block that has nothing but arrays and frames

    w.tag = w.b.createTag("tag", "event", {1.5});
    w.tag.extent({1.0});
    w.tag.units({"s"});
    w.tag.addReference(w.da1);
    w.tfeat = w.tag.createFeature(w.feat, LinkType::Untagged);
    w.tag.addSource(w.src2);
    w.tag.metadata(w.sec2);

    w.mtag = w.b.createMultiTag("mtag", "events", w.pos);
    w.mtag.extents(w.ext);
    w.mtag.addReference(w.da1);
    w.mfeat = w.mtag.createFeature(w.feat, LinkType::Indexed);
    w.mtag.addSource(w.src);
    w.mtag.addSource(w.src_leaf);
    w.tag_u = w.b.createTag(UUID_NAME, "event", {0.0});
    w.tag_u.addReference(w.da_u);

    w.grp = w.b.createGroup("grp", "trial");
    w.grp.addDataArray(w.da1); w.grp.addTag(w.tag); w.grp.addMultiTag(w.mtag); w.grp.addDataFrame(w.df);
}

// re-acquire all handles from a (re)opened file
inline void rebind_world(World &w) {
    w.sec = w.f.getSection("sec"); w.sec_child = w.sec ? w.sec.getSection("child") : Section(); w.sec2 = w.f.getSection("sec2");
    w.sec_grand = w.sec_child ? w.sec_child.getSection("grand") : Section();
    w.prop = w.sec ? w.sec.getProperty("temperature") : Property(); w.prop2 = w.sec_child ? w.sec_child.getProperty("name") : Property();
    w.b = w.f.getBlock("blk"); w.b2 = w.f.getBlock("blk2");
    if (!w.b) return;
    w.src = w.b.getSource("src"); w.src_child = w.src ? w.src.getSource("child") : Source(); w.src2 = w.b.getSource("src2");
    w.src_child2 = w.src ? w.src.getSource("child2") : Source(); w.src_leaf = w.src_child2 ? w.src_child2.getSource("leaf") : Source();
    w.da_u = w.b.getDataArray(UUID_NAME); w.tag_u = w.b.getTag(UUID_NAME); w.b2_pos = w.b2 ? w.b2.getDataArray("pos") : DataArray(); w.b2_df = w.b2 ? w.b2.getDataFrame("df2") : DataFrame();
    w.da1 = w.b.getDataArray("da1"); w.da2 = w.b.getDataArray("da2"); w.pos = w.b.getDataArray("pos"); w.ext = w.b.getDataArray("ext"); w.feat = w.b.getDataArray("feat");
    w.df = w.b.getDataFrame("df"); w.tag = w.b.getTag("tag"); w.mtag = w.b.getMultiTag("mtag"); w.grp = w.b.getGroup("grp");
    if (w.tag && w.tag.featureCount() > 0) w.tfeat = w.tag.getFeature((ndsize_t)0);
    if (w.mtag && w.mtag.featureCount() > 0) w.mfeat = w.mtag.getFeature((size_t)0);
}

inline void drop_handles(World &w) {
    w.tfeat = none; w.mfeat = none; w.prop = none; w.prop2 = none;
    w.grp = none; w.mtag = none; w.tag = none; w.tag_u = none; w.df = DataFrame(); w.b2_df = DataFrame(); w.da_u = none; w.b2_pos = none; w.src_leaf = none; w.src_child2 = none;
    w.feat = none; w.ext = none; w.pos = none; w.da2 = none; w.da1 = none;
    w.src_child = none; w.src2 = none; w.src = none; w.b2 = none; w.b = none;
    w.sec_grand = none; w.sec_child = none; w.sec2 = none; w.sec = none;
}

}  // namespace vh
