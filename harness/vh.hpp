// Common harness helpers: symbolic names, observation of the whole entity tree through public getters.
#pragma once
#include "nixsym.h"
#include <nix.hpp>
#include <string>
#include <vector>
#include <cstring>

namespace vh {
using namespace nix;

// ---- observation: a flat byte string; fields are tagged, values appended raw (no formatting, so symbolic values stay terms) ----
struct Obs {
    std::string s;
    void tag(const char *t) { s += '|'; s += t; s += '='; }
    void str(const char *t, const std::string &v) { tag(t); u64raw(v.size()); s += v; }
    void u64raw(uint64_t v) { char b[8]; memcpy(b, &v, 8); s.append(b, 8); }
    void u64(const char *t, uint64_t v) { tag(t); u64raw(v); }
    void f64(const char *t, double v) { tag(t); char b[8]; memcpy(b, &v, 8); s.append(b, 8); }
    void ostr(const char *t, const boost::optional<std::string> &v) { if (v) str(t, *v); else { tag(t); s += "<none>"; } }
    void of64(const char *t, const boost::optional<double> &v) { if (v) f64(t, *v); else { tag(t); s += "<none>"; } }
    void mark(const char *t) { s += '|'; s += t; }
};

struct ObsOpt { bool times = true; bool data = true; bool ids = true; size_t max_elems = 16; };

#define VH_TRY(o, what, code) try { code; } catch (const std::exception &) { (o).mark("!exc:" what); }

inline void obs_named(Obs &o, const base::NamedEntity<base::INamedEntity> &) {}

template <class E> void obs_entity_head(Obs &o, const E &e, const ObsOpt &opt) {
    if (opt.ids) o.str("id", e.id());
    o.str("name", e.name());
    o.str("type", e.type());
    o.ostr("def", e.definition());
    if (opt.times) o.u64("created", (uint64_t)e.createdAt());
}
template <class E> void obs_metadata(Obs &o, const E &e) {
    VH_TRY(o, "metadata", { Section m = e.metadata(); if (m) o.str("md", m.id()); else o.mark("md:none"); });
}
template <class E> void obs_sources(Obs &o, const E &e) {
    VH_TRY(o, "sources", { ndsize_t n = e.sourceCount(); o.u64("nsrc", n); for (ndsize_t i = 0; i < n; i++) o.str("src", e.getSource((size_t)i).id()); });
}

inline void obs_dimension(Obs &o, const Dimension &d) {
    o.u64("dimidx", d.index());
    DimensionType t = d.dimensionType();
    o.u64("dimtype", (uint64_t)t);
    if (t == DimensionType::Sample) {
        SampledDimension sd = d.asSampledDimension();
        o.f64("interval", sd.samplingInterval()); o.of64("offset", sd.offset()); o.ostr("unit", sd.unit()); o.ostr("label", sd.label());
    } else if (t == DimensionType::Range) {
        RangeDimension rd = d.asRangeDimension();
        o.u64("alias", rd.alias());
        o.ostr("unit", rd.unit()); o.ostr("label", rd.label());
        std::vector<double> tk = rd.ticks();
        o.u64("nticks", tk.size());
        for (double x : tk) o.f64("t", x);
    } else if (t == DimensionType::Set) {
        SetDimension st = d.asSetDimension();
        std::vector<std::string> l = st.labels();
        o.u64("nlabels", l.size());
        for (auto &x : l) o.str("l", x);
    } else if (t == DimensionType::DataFrame) {
        DataFrameDimension fd = d.asDataFrameDimension();
        boost::optional<unsigned> ci = fd.columnIndex();
        o.u64("col", ci ? *ci : 0xffffffffu);
    }
}

inline void obs_array_data(Obs &o, const DataArray &a, const ObsOpt &opt) {
    NDSize ext = a.dataExtent();
    o.u64("rank", ext.size());
    for (size_t i = 0; i < ext.size(); i++) o.u64("ext", ext[i]);
    if (!opt.data || ext.size() == 0) return;
    ndsize_t n = ext.nelms();
    if (n == 0 || n > opt.max_elems) return;
    DataType dt = a.dataType();
    if (dt == DataType::String) {
        std::vector<std::string> v((size_t)n);
        a.getDataDirect(dt, v.data(), ext, NDSize(ext.size(), 0));
        for (auto &x : v) o.str("s", x);
    } else if (dt != DataType::Opaque && dt != DataType::Nothing && dt != DataType::Char) {
        std::vector<char> buf((size_t)n * data_type_to_size(dt));
        a.getDataDirect(dt, buf.data(), ext, NDSize(ext.size(), 0));
        o.tag("raw"); o.s.append(buf.data(), buf.size());
    }
}

inline void obs_data_array(Obs &o, const DataArray &a, const ObsOpt &opt) {
    o.mark("DataArray");
    obs_entity_head(o, a, opt);
    o.ostr("label", a.label()); o.ostr("unit", a.unit()); o.of64("origin", a.expansionOrigin());
    std::vector<double> pc = a.polynomCoefficients();
    o.u64("npoly", pc.size()); for (double c : pc) o.f64("c", c);
    o.u64("dtype", (uint64_t)a.dataType());
    VH_TRY(o, "data", obs_array_data(o, a, opt));
    VH_TRY(o, "dims", { ndsize_t n = a.dimensionCount(); o.u64("ndims", n); for (ndsize_t i = 1; i <= n; i++) obs_dimension(o, a.getDimension(i)); });
    VH_TRY(o, "dimframes", { ndsize_t n = a.dimensionCount(); for (ndsize_t i = 1; i <= n; i++) { Dimension d = a.getDimension(i); if (d.dimensionType() == DimensionType::DataFrame) o.str("dimframe", d.asDataFrameDimension().data()->id()); } });
    obs_metadata(o, a); obs_sources(o, a);
}

inline void obs_feature(Obs &o, const Feature &f, const ObsOpt &opt) {
    o.mark("Feature");
    if (opt.ids) o.str("id", f.id());
    o.u64("link", (uint64_t)f.linkType());
    VH_TRY(o, "fdata", { DataArray d = f.data(); if (d) o.str("data", d.id()); else o.mark("data:none"); });
}

inline void obs_tag(Obs &o, const Tag &t, const ObsOpt &opt) {
    o.mark("Tag");
    obs_entity_head(o, t, opt);
    for (auto &u : t.units()) o.str("unit", u);
    std::vector<double> p = t.position(), e = t.extent();
    o.u64("npos", p.size()); for (double x : p) o.f64("p", x);
    o.u64("next", e.size()); for (double x : e) o.f64("e", x);
    VH_TRY(o, "refs", { ndsize_t n = t.referenceCount(); o.u64("nref", n); for (ndsize_t i = 0; i < n; i++) o.str("ref", t.getReference((size_t)i).id()); });
    VH_TRY(o, "feats", { ndsize_t n = t.featureCount(); o.u64("nfeat", n); for (ndsize_t i = 0; i < n; i++) obs_feature(o, t.getFeature(i), opt); });
    obs_metadata(o, t); obs_sources(o, t);
}

inline void obs_multi_tag(Obs &o, const MultiTag &t, const ObsOpt &opt) {
    o.mark("MultiTag");
    obs_entity_head(o, t, opt);
    for (auto &u : t.units()) o.str("unit", u);
    VH_TRY(o, "positions", { DataArray p = t.positions(); if (p) o.str("positions", p.id()); else o.mark("positions:none"); });
    VH_TRY(o, "extents", { DataArray p = t.extents(); if (p) o.str("extents", p.id()); else o.mark("extents:none"); });
    VH_TRY(o, "refs", { ndsize_t n = t.referenceCount(); o.u64("nref", n); for (ndsize_t i = 0; i < n; i++) o.str("ref", t.getReference((size_t)i).id()); });
    VH_TRY(o, "feats", { ndsize_t n = t.featureCount(); o.u64("nfeat", n); for (ndsize_t i = 0; i < n; i++) obs_feature(o, t.getFeature((size_t)i), opt); });
    obs_metadata(o, t); obs_sources(o, t);
}

inline void obs_source(Obs &o, const Source &s, const ObsOpt &opt, int depth) {
    o.mark("Source");
    obs_entity_head(o, s, opt);
    obs_metadata(o, s);
    ndsize_t n = s.sourceCount(); o.u64("nchild", n);
    if (depth < 6) for (ndsize_t i = 0; i < n; i++) obs_source(o, s.getSource(i), opt, depth + 1);
}

inline void obs_group(Obs &o, const Group &g, const ObsOpt &opt) {
    o.mark("Group");
    obs_entity_head(o, g, opt);
    VH_TRY(o, "gda", { ndsize_t n = g.dataArrayCount(); o.u64("nda", n); for (ndsize_t i = 0; i < n; i++) o.str("da", g.getDataArray((size_t)i).id()); });
    VH_TRY(o, "gtag", { ndsize_t n = g.tagCount(); o.u64("ntag", n); for (ndsize_t i = 0; i < n; i++) o.str("tag", g.getTag((size_t)i).id()); });
    VH_TRY(o, "gmtag", { ndsize_t n = g.multiTagCount(); o.u64("nmtag", n); for (ndsize_t i = 0; i < n; i++) o.str("mtag", g.getMultiTag((size_t)i).id()); });
    VH_TRY(o, "gdf", { ndsize_t n = g.dataFrameCount(); o.u64("ndf", n); for (ndsize_t i = 0; i < n; i++) o.str("df", g.getDataFrame(i).id()); });
    obs_metadata(o, g); obs_sources(o, g);
}

inline void obs_variant(Obs &o, const Variant &v) {
    DataType t = v.type();
    o.u64("vt", (uint64_t)t);
    switch (t) {
    case DataType::Bool: o.u64("v", v.get<bool>()); break;
    case DataType::Int32: o.u64("v", (uint64_t)(int64_t)v.get<int32_t>()); break;
    case DataType::UInt32: o.u64("v", v.get<uint32_t>()); break;
    case DataType::Int64: o.u64("v", (uint64_t)v.get<int64_t>()); break;
    case DataType::UInt64: o.u64("v", v.get<uint64_t>()); break;
    case DataType::Double: o.f64("v", v.get<double>()); break;
    case DataType::String: o.str("v", v.get<std::string>()); break;
    default: o.mark("v:?"); break;
    }
}

inline void obs_data_frame(Obs &o, const DataFrame &f, const ObsOpt &opt) {
    o.mark("DataFrame");
    obs_entity_head(o, f, opt);
    std::vector<Column> cols = f.columns();
    o.u64("ncol", cols.size());
    for (auto &c : cols) { o.str("cname", c.name); o.str("cunit", c.unit); o.u64("ctype", (uint64_t)c.dtype); }
    ndsize_t rows = f.rows();
    o.u64("rows", rows);
    if (opt.data && rows <= 4) {
        DataFrame g = f;
        for (ndsize_t r = 0; r < rows; r++) VH_TRY(o, "row", { std::vector<Variant> row = g.readRow(r); for (auto &v : row) obs_variant(o, v); });
    }
    obs_metadata(o, f); obs_sources(o, f);
}

inline void obs_block(Obs &o, const Block &b, const ObsOpt &opt) {
    o.mark("Block");
    obs_entity_head(o, b, opt);
    obs_metadata(o, b);
    { ndsize_t n = b.dataArrayCount(); o.u64("nda", n); for (ndsize_t i = 0; i < n; i++) obs_data_array(o, b.getDataArray(i), opt); }
    { ndsize_t n = b.dataFrameCount(); o.u64("ndf", n); for (ndsize_t i = 0; i < n; i++) obs_data_frame(o, b.getDataFrame(i), opt); }
    { ndsize_t n = b.tagCount(); o.u64("ntag", n); for (ndsize_t i = 0; i < n; i++) obs_tag(o, b.getTag(i), opt); }
    { ndsize_t n = b.multiTagCount(); o.u64("nmtag", n); for (ndsize_t i = 0; i < n; i++) obs_multi_tag(o, b.getMultiTag(i), opt); }
    { ndsize_t n = b.groupCount(); o.u64("ngrp", n); for (ndsize_t i = 0; i < n; i++) obs_group(o, b.getGroup(i), opt); }
    { ndsize_t n = b.sourceCount(); o.u64("nsrc", n); for (ndsize_t i = 0; i < n; i++) obs_source(o, b.getSource(i), opt, 0); }
}

inline void obs_property(Obs &o, const Property &p, const ObsOpt &opt) {
    o.mark("Property");
    if (opt.ids) o.str("id", p.id());
    o.str("name", p.name());
    o.ostr("def", p.definition()); o.ostr("unit", p.unit()); o.of64("unc", p.uncertainty());
    o.u64("dtype", (uint64_t)p.dataType());
    VH_TRY(o, "values", { std::vector<Variant> v = p.values(); o.u64("nval", v.size()); for (auto &x : v) obs_variant(o, x); });
}

inline void obs_section(Obs &o, const Section &s, const ObsOpt &opt, int depth) {
    o.mark("Section");
    obs_entity_head(o, s, opt);
    o.ostr("repo", s.repository());
    VH_TRY(o, "link", { Section l = s.link(); if (l) o.str("link", l.id()); else o.mark("link:none"); });
    { ndsize_t n = s.propertyCount(); o.u64("nprop", n); for (ndsize_t i = 0; i < n; i++) obs_property(o, s.getProperty(i), opt); }
    ndsize_t n = s.sectionCount(); o.u64("nsec", n);
    if (depth < 6) for (ndsize_t i = 0; i < n; i++) obs_section(o, s.getSection(i), opt, depth + 1);
}

inline std::string observe(const File &f, const ObsOpt &opt = ObsOpt()) {
    Obs o;
    o.mark("File");
    o.str("format", f.format());
    std::vector<int> v = f.version();
    for (int x : v) o.u64("ver", (uint64_t)(int64_t)x);
    if (opt.ids) o.str("fid", f.id());
    if (opt.times) o.u64("created", (uint64_t)f.createdAt());
    { ndsize_t n = f.blockCount(); o.u64("nblk", n); for (ndsize_t i = 0; i < n; i++) obs_block(o, f.getBlock(i), opt); }
    { ndsize_t n = f.sectionCount(); o.u64("nsec", n); for (ndsize_t i = 0; i < n; i++) obs_section(o, f.getSection(i), opt, 0); }
    return o.s;
}

// ---- symbolic inputs ----
// name of length 0..maxlen (length chosen by fork) over a small alphabet (symbolic bytes constrained to it)
inline std::string sym_name(const char *label, unsigned maxlen, const char *alphabet) {
    unsigned len = nixsym_choice(label, maxlen + 1);
    std::string s(len, 'a');
    for (unsigned i = 0; i < len; i++) {
        uint8_t c = nixsym_u8(label);
        bool ok = false;
        for (const char *a = alphabet; *a; a++) ok = ok || c == (uint8_t)*a;
        nixsym_assume(ok);
        s[i] = (char)c;
    }
    return s;
}

inline bool throws_of(const std::exception &) { return true; }

}  // namespace vh
