// C12 — ids are well-formed UUIDs and never change (S tier); K: shape of boost's to_string and createId
#include "world.hpp"
#include "entities.hpp"
using namespace nix;
using namespace vh;

static bool well_formed_uuid(const std::string &s) {
    if (s.size() != 36) return false;
    for (size_t i = 0; i < 36; i++) {
        char c = s[i];
        if (i == 8 || i == 13 || i == 18 || i == 23) { if (c != '-') return false; }
        else if (!((c >= '0' && c <= '9') || (c >= 'a' && c <= 'f'))) return false;
    }
    if (s[14] != '4') return false;                                   // version 4
    if (!(s[19] == '8' || s[19] == '9' || s[19] == 'a' || s[19] == 'b')) return false;   // variant 10xx
    return true;
}

// the real createId (boost mt19937 + basic_random_generator + to_string), first calls
extern "C" void vh_c12_real_createid() {
    nixsym_declare_reach("done");
    std::string a = util::createId(), b = util::createId(), c = util::createId();
    nixsym_assert(well_formed_uuid(a) && well_formed_uuid(b) && well_formed_uuid(c), "createId yields a well-formed version-4 UUID");
    nixsym_assert(a != b && b != c && a != c, "consecutive ids differ");
    nixsym_assert(util::looksLikeUUID(a), "looksLikeUUID accepts it");
    nixsym_reach("done");
}

// the id stream must depend on the operating system's entropy source: the real createId is run once per job with a different
// draw of std::random_device (same clock); the driver compares the ids of the jobs - equal ids mean that ids are a function of
// the wall-clock second alone, i.e. processes started within the same second collide.  (With the draw as a symbolic input the
// Mersenne twister's 624-word initialisation is beyond the solver budget - tried, no verdict in 45 min - hence two concrete draws.)
extern "C" void vh_c12_entropy() {
    nixsym_declare_reach("done");
    std::string a = util::createId(), b = util::createId();
    nixsym_assert(well_formed_uuid(a) && well_formed_uuid(b) && a != b, "ids are well-formed and consecutive ids differ");
    nixsym_trace_str("id", (a + b).c_str());
    nixsym_reach("done");
}

// ids of all entities are well formed, pairwise distinct, and unchanged by any operation of the history menu
#define N_OPS 20
extern "C" void vh_c12_stable() {
    nixsym_declare_reach("compared");
    World w;
    build_world(w);
    EMap before = collect(w.f);
    std::string fid = w.f.id();
    nixsym_assert(well_formed_uuid(fid), "file id well formed");
    for (auto &kv : before) if (kv.first != "<file>") nixsym_assert(well_formed_uuid(kv.first), "entity id well formed");
    // name -> id for named top-level entities (ids must stay attached to the same entity)
    std::string id_tagu = w.tag_u.id(), id_dau = w.da_u.id(), id_grp = w.grp.id(), id_mtag = w.mtag.id();
    std::string id_da1 = w.da1.id(), id_tag = w.tag.id(), id_sec = w.sec.id(), id_df = w.df.id(), id_b = w.b.id(), id_prop = w.prop.id(), id_src = w.src.id();
    uint32_t op = nixsym_choice("op", N_OPS);
    try {
        switch (op) {
        case 0: w.b.createDataArray("da1", "t", DataType::Double, NDSize({1})); break;            // re-create by name: rejected
        case 1: w.b.createDataFrame("df", "t", {{"c", "", DataType::Int32}}); break;
        case 2: w.f.createBlock("blk", "t"); break;
        case 3: w.f.createSection("sec", "t"); break;
        case 4: w.sec.createProperty("temperature", DataType::Double); break;
        case 5: w.b.createTag("tag", "t", {1.0}); break;
        case 6: w.da1.type("other"); w.da1.definition("d"); w.da1.label("l"); break;
        case 7: w.da1.dataExtent(NDSize({8})); w.da1.deleteDimensions(); w.da1.appendSetDimension(); break;
        case 8: w.tag.position({9.0}); w.tag.references(std::vector<DataArray>{w.da2}); break;
        case 9: w.sec.type("x"); w.prop.values({Variant(1.0)}); w.prop.unit(none); break;
        case 10: w.b.deleteDataArray("da2"); w.b.createDataArray("da2", "t", DataType::Int32, NDSize({1})); break;   // a new entity: must get a fresh id
        case 11: w.grp.dataArrays(std::vector<DataArray>{w.da2}); break;
        case 12: w.src.createSource("n", "t"); w.b.createSource("n", "t"); break;
        case 14: w.b.createTag(UUID_NAME, "t", {1.0}); break;                                      // re-create by a UUID-shaped name: rejected
        case 15: w.b.createDataArray(UUID_NAME, "t", DataType::Double, NDSize({1})); break;
        case 16: w.b.createGroup("grp", "t"); w.b.createMultiTag("mtag", "t", w.pos); w.b.createSource("src", "t"); break;
        case 13: { drop_handles(w); w.f.close(); w.f = File::open(WORLD_FILE, FileMode::ReadWrite); rebind_world(w); break; }
        // a later session in every other way a file can be opened without truncating it
        case 17: { drop_handles(w); w.f.close(); w.f = File::open(WORLD_FILE, FileMode::ReadWrite, "hdf5", Compression::None, OpenFlags::Force); rebind_world(w); break; }
        case 18: { drop_handles(w); w.f.close(); w.f = File::open(WORLD_FILE, FileMode::ReadOnly, "hdf5", Compression::None, OpenFlags::Force); rebind_world(w); break; }
        case 19: { drop_handles(w); w.f.close(); w.f = File::open(WORLD_FILE, FileMode::ReadOnly); rebind_world(w); File again = w.f; (void)again; break; }
        }
    } catch (const std::exception &) {}
    nixsym_assert(w.f.id() == fid, "file id changed without forceId");
    nixsym_assert(w.b.getDataArray("da1").id() == id_da1 && w.b.getTag("tag").id() == id_tag && w.f.getSection("sec").id() == id_sec &&
                  w.b.getDataFrame("df").id() == id_df && w.f.getBlock("blk").id() == id_b && w.f.getSection("sec").getProperty("temperature").id() == id_prop &&
                  w.b.getSource("src").id() == id_src && w.b.getTag(UUID_NAME).id() == id_tagu && w.b.getDataArray(UUID_NAME).id() == id_dau &&
                  w.b.getGroup("grp").id() == id_grp && w.b.getMultiTag("mtag").id() == id_mtag, "an entity's id changed during its lifetime");
    nixsym_assert(w.tag_u.id() == id_tagu && w.da_u.id() == id_dau, "id seen through a handle obtained earlier changed");
    EMap after = collect(w.f);
    for (auto &kv : after) {
        if (kv.first == "<file>") continue;
        nixsym_assert(well_formed_uuid(kv.first), "entity id well formed");
        if (!before.count(kv.first)) nixsym_assert(kv.first != fid, "new entity got a fresh id");
    }
    nixsym_reach("compared");
    if (op == 18 || op == 19) return;                  // read-only session: forceId is (rightly) refused there
    std::string old = w.f.id();
    w.f.forceId();
    nixsym_assert(w.f.id() != old && well_formed_uuid(w.f.id()), "forceId assigns a new well-formed id");
}
