// C07 (S) — the overload family of Dimension::indexOf on real dimensions of a file: a start/end pair converts to
// (GreaterOrEqual(start), LessOrEqual | Less(end)) and is valid exactly when start <= end and the pair is ordered; the
// vector and the deprecated overloads agree with the pair overload element by element.  The three floating-point index
// kernels are decided on their own (C07_index.cpp); here they are the contract kernels of tagging.hpp (comparisons only),
// so start and end stay fully symbolic.  Everything above the kernels is the real code.
#include "tagging.hpp"
using namespace nix;
using namespace vh;

typedef boost::optional<std::pair<ndsize_t, ndsize_t>> OptPair;
static bool same_pair(const OptPair &a, const OptPair &b) { return (bool)a == (bool)b && (!a || (a->first == b->first && a->second == b->second)); }

template <class DIM, class PAIRFN, class VECFN>
static void check_family(const DIM &dim, double p, double q, RangeMatch rm, PAIRFN pair_of, VECFN vec_of) {
    boost::optional<ndsize_t> ge = dim.indexOf(p, PositionMatch::GreaterOrEqual);
    boost::optional<ndsize_t> le = dim.indexOf(q, rm == RangeMatch::Inclusive ? PositionMatch::LessOrEqual : PositionMatch::Less);
    bool valid = (p <= q) & (bool)ge & (bool)le; valid = valid && *ge <= *le;
    OptPair pr = pair_of(p, q);
    nixsym_assert((bool)pr == valid, "a start/end pair is valid exactly when start <= end, both ends convert and the pair is ordered");
    if (pr && valid) nixsym_assert(pr->first == *ge && pr->second == *le, "pair = (GreaterOrEqual(start), LessOrEqual/Less(end))");
    if (valid) nixsym_reach("valid"); else nixsym_reach("invalid");
    std::vector<double> st = {p, q, p}, en = {q, q, p};
    std::vector<OptPair> v = vec_of(st, en);
    nixsym_assert(v.size() == 3, "the vector overload answers every pair");
    if (v.size() == 3) nixsym_assert(same_pair(v[0], pr) && same_pair(v[1], pair_of(q, q)) && same_pair(v[2], pair_of(p, p)), "vector overload = pair overload, element by element, in the order given");
}

extern "C" void vh_c07_overloads() {
    nixsym_declare_reach("valid"); nixsym_declare_reach("invalid");
    File f = File::open("c07o.h5", FileMode::Overwrite);
    Block b = f.createBlock("b", "t");
    DataArray a = b.createDataArray("a", "t", DataType::Double, NDSize({3}));
    uint32_t kind = nixsym_choice("kind", 4);
    double p = nixsym_f64("p"), q = nixsym_f64("q");
    nixsym_assume(p == p && q == q && p > -64.0 && p < 64.0 && q > -64.0 && q < 64.0);
    RangeMatch rm = nixsym_choice("mode", 2) ? RangeMatch::Inclusive : RangeMatch::Exclusive;
    if (kind == 0) {
        SampledDimension d = a.appendSampledDimension(0.5, "time", "s", 2.0);            // interval != offset
        check_family(d, p, q, rm, [&](double s, double e) { return d.indexOf(s, e, rm); },
                     [&](const std::vector<double> &s, const std::vector<double> &e) { return d.indexOf(s, e, rm); });
        nixsym_assert(same_pair(d.indexOf(p, q, 0.5, 2.0, rm), d.indexOf(p, q, rm)), "explicit interval/offset overload agrees");
        if (rm == RangeMatch::Inclusive) {
            OptPair pr = d.indexOf(p, q, rm), pq = d.indexOf(q, q, rm);
            bool threw = false; std::pair<ndsize_t, ndsize_t> dp;
            try { dp = d.indexOf(p, q); } catch (const std::exception &) { threw = true; }
            nixsym_assert(threw == !pr && (threw || (dp.first == pr->first && dp.second == pr->second)), "deprecated pair overload = inclusive pair, throws exactly for an invalid range");
            threw = false; std::vector<std::pair<ndsize_t, ndsize_t>> dv;
            try { dv = d.indexOf(std::vector<double>{p, q}, std::vector<double>{q, q}); } catch (const std::exception &) { threw = true; }
            nixsym_assert(threw == !(pr && pq), "deprecated vector overload throws exactly when one of the ranges is invalid");
            if (!threw && pr && pq) nixsym_assert(dv.size() == 2 && dv[0].first == pr->first && dv[0].second == pr->second && dv[1].first == pq->first && dv[1].second == pq->second, "deprecated vector overload = inclusive pairs in the order given");
        }
        boost::optional<ndsize_t> ge = d.indexOf(p, PositionMatch::GreaterOrEqual);      // the rule this deprecated overload implements
        bool threw = false; ndsize_t di = 0;
        try { di = d.indexOf(p); } catch (const std::exception &) { threw = true; }
        nixsym_assert(threw == !ge && (threw || di == *ge), "deprecated scalar overload = GreaterOrEqual, throws when there is no such sample");
    } else if (kind == 1) {
        RangeDimension d = a.appendRangeDimension({1.0, 2.0, 4.0});
        check_family(d, p, q, rm, [&](double s, double e) { return d.indexOf(s, e, std::vector<double>(), rm); },
                     [&](const std::vector<double> &s, const std::vector<double> &e) { return d.indexOf(s, e, rm); });
        OptPair pr = d.indexOf(p, q, std::vector<double>(), rm), pq = d.indexOf(q, q, std::vector<double>(), rm);
        bool strict = nixsym_choice("strict", 2) == 1, threw = false; std::vector<std::pair<ndsize_t, ndsize_t>> dv;
        try { dv = d.indexOf(std::vector<double>{p, q}, std::vector<double>{q, q}, strict, rm); } catch (const std::exception &) { threw = true; }
        nixsym_assert(threw == (strict && !(pr && pq)), "strict deprecated vector overload throws exactly when a range is invalid");
        if (!threw) nixsym_assert(dv.size() == (size_t)((bool)pr + (bool)pq) && (!pr || (dv[0].first == pr->first && dv[0].second == pr->second)) && (!pq || (dv.back().first == pq->first && dv.back().second == pq->second)), "deprecated vector overload = the valid pairs in the order given");
        boost::optional<ndsize_t> le = d.indexOf(p, PositionMatch::LessOrEqual), ge = d.indexOf(p, PositionMatch::GreaterOrEqual);
        bool lessq = nixsym_choice("less_or_equal", 2) == 1; threw = false; ndsize_t di = 0;
        try { di = d.indexOf(p, lessq); } catch (const std::exception &) { threw = true; }
        nixsym_assert(lessq ? (threw == !le && (threw || di == *le)) : (threw == !ge && (threw || di == *ge)), "deprecated scalar overload = LessOrEqual / GreaterOrEqual");
    } else if (kind == 2) {
        SetDimension d = a.appendSetDimension({"a", "b", "c"});
        check_family(d, p, q, rm, [&](double s, double e) { return d.indexOf(s, e, rm); },
                     [&](const std::vector<double> &s, const std::vector<double> &e) { return d.indexOf(s, e, rm); });
        std::vector<std::string> two = {"a", "b"};
        OptPair w = d.indexOf(p, q, two, rm);
        if (w) nixsym_assert(w->second < 2, "explicit label list bounds the pair");
    } else {
        DataFrame df = b.createDataFrame("df", "t", {{"c", "", DataType::Int64}}); df.rows(3);
        DataFrameDimension d = a.appendDataFrameDimension(df);
        check_family(d, p, q, rm, [&](double s, double e) { return d.indexOf(s, e, rm); },
                     [&](const std::vector<double> &s, const std::vector<double> &e) { return d.indexOf(s, e, rm); });
        OptPair w = d.indexOf(p, q, (ndsize_t)2, rm);
        if (w) nixsym_assert(w->second < 2, "explicit row count bounds the pair");
    }
}
