// C01 — array data round trip: what is written is what is read (full stack on the HDF5 model) + kernels
#include "world.hpp"
#include "hdf5/h5x/H5DataSet.hpp"
using namespace nix;
using namespace vh;

#ifndef VH_STEPS
#define VH_STEPS 2
#endif

template <class T> struct Sym;
template <> struct Sym<double>   { static double   get() { return nixsym_f64("v"); } static DataType dt() { return DataType::Double; } };
template <> struct Sym<float>    { static float    get() { return nixsym_f32("v"); } static DataType dt() { return DataType::Float; } };
template <> struct Sym<int32_t>  { static int32_t  get() { return nixsym_i32("v"); } static DataType dt() { return DataType::Int32; } };
template <> struct Sym<int64_t>  { static int64_t  get() { return nixsym_i64("v"); } static DataType dt() { return DataType::Int64; } };
template <> struct Sym<uint8_t>  { static uint8_t  get() { return nixsym_u8("v"); }  static DataType dt() { return DataType::UInt8; } };
template <> struct Sym<uint16_t> { static uint16_t get() { return nixsym_u16("v"); } static DataType dt() { return DataType::UInt16; } };
template <> struct Sym<uint64_t> { static uint64_t get() { return nixsym_u64("v"); } static DataType dt() { return DataType::UInt64; } };
template <> struct Sym<int8_t>   { static int8_t   get() { return (int8_t)nixsym_u8("v"); } static DataType dt() { return DataType::Int8; } };
template <> struct Sym<int16_t>  { static int16_t  get() { return (int16_t)nixsym_u16("v"); } static DataType dt() { return DataType::Int16; } };
template <> struct Sym<uint32_t> { static uint32_t get() { return nixsym_u32("v"); } static DataType dt() { return DataType::UInt32; } };

template <class T> static bool same(T a, T b) { return memcmp(&a, &b, sizeof(T)) == 0; }   // bit-identical (NaN payloads included)

// reference model: dense row-major array, rank 1 or 2
template <class T> struct Ref {
    NDSize ext; std::vector<T> d;
    size_t idx(size_t i, size_t j) const { return ext.size() == 1 ? i : i * (size_t)ext[1] + j; }
    void resize(const NDSize &ne) {
        std::vector<T> nd((size_t)ne.nelms(), T());
        size_t r0 = (size_t)std::min(ext[0], ne[0]), c0 = ext.size() == 2 ? (size_t)std::min(ext[1], ne[1]) : 1;
        for (size_t i = 0; i < r0; i++) for (size_t j = 0; j < c0; j++) {
            size_t o = ext.size() == 1 ? i : i * (size_t)ext[1] + j, n = ne.size() == 1 ? i : i * (size_t)ne[1] + j;
            nd[n] = d[o];
        }
        ext = ne; d = nd;
    }
};

template <class T> static void check_whole(DataArray &a, const Ref<T> &ref) {
    NDSize e = a.dataExtent();
    nixsym_assert(e == ref.ext, "extent as expected");
    if (e != ref.ext || ref.d.empty()) return;
    std::vector<T> got(ref.d.size());
    memset(got.data(), 0xA5, got.size() * sizeof(T));                  // a read has to deliver every element, whatever the buffer held
    a.getData(Sym<T>::dt(), got.data(), e, NDSize(e.size(), 0));
    for (size_t k = 0; k < got.size(); k++) nixsym_assert(same(got[k], ref.d[k]), "read returns exactly the values written (untouched elements keep their value, grown elements read as zero)");
}

template <class T> static void run_rw() {
    nixsym_declare_reach("wrote"); nixsym_declare_reach("reopened");
    File f = File::open("c01.h5", FileMode::Overwrite);
    Block b = f.createBlock("b", "t");
    uint32_t shape = nixsym_choice("shape", 3);
    Ref<T> ref;
    ref.ext = shape == 0 ? NDSize({1}) : shape == 1 ? NDSize({3}) : NDSize({2, 2});
    ref.d.assign((size_t)ref.ext.nelms(), T());
    Compression comp = nixsym_choice("deflate", 2) ? Compression::DeflateNormal : Compression::None;
    DataArray a = b.createDataArray("a", "t", Sym<T>::dt(), ref.ext, comp);
    check_whole(a, ref);
    for (int step = 0; step < VH_STEPS; step++) {
        uint32_t op = nixsym_choice("op", 4);
        size_t rank = ref.ext.size();
        if (op == 0) {                       // hyperslab write at (offset,count) inside, touching or crossing the edge
            NDSize off(rank, 0), cnt(rank, 1);
            for (size_t k = 0; k < rank; k++) { off[k] = nixsym_choice("off", (uint32_t)ref.ext[k] + 1); cnt[k] = 1 + nixsym_choice("cnt", (uint32_t)ref.ext[k]); }
            bool inside = true;
            for (size_t k = 0; k < rank; k++) inside = inside && off[k] + cnt[k] <= ref.ext[k];
            std::vector<T> vals((size_t)cnt.nelms());
            for (auto &x : vals) x = Sym<T>::get();
            bool threw = false;
            try { a.setData(Sym<T>::dt(), vals.data(), cnt, off); } catch (const std::exception &) { threw = true; }
            nixsym_assert(threw == !inside, "a write is accepted exactly when it lies inside the extent");
            if (!threw) {
                size_t k = 0;
                for (size_t i = 0; i < (size_t)cnt[0]; i++) for (size_t j = 0; j < (rank == 2 ? (size_t)cnt[1] : 1); j++)
                    ref.d[ref.idx((size_t)off[0] + i, rank == 2 ? (size_t)off[1] + j : 0)] = vals[k++];
                nixsym_reach("wrote");
            }
        } else if (op == 1) {                // append along an axis
            size_t axis = nixsym_choice("axis", (uint32_t)rank);
            NDSize cnt = ref.ext; cnt[axis] = 1;
            std::vector<T> vals((size_t)cnt.nelms());
            for (auto &x : vals) x = Sym<T>::get();
            NDSize old = ref.ext, ne = ref.ext; ne[axis] += 1;
            a.appendData(Sym<T>::dt(), vals.data(), cnt, axis);
            ref.resize(ne);
            size_t k = 0;
            for (size_t i = 0; i < (size_t)cnt[0]; i++) for (size_t j = 0; j < (rank == 2 ? (size_t)cnt[1] : 1); j++) {
                size_t ii = axis == 0 ? (size_t)old[0] + i : i, jj = rank == 2 ? (axis == 1 ? (size_t)old[1] + j : j) : 0;
                ref.d[ref.idx(ii, jj)] = vals[k++];
            }
        } else if (op == 2) {                // extent change (grow and shrink)
            NDSize ne = ref.ext;
            for (size_t k = 0; k < rank; k++) ne[k] = 1 + nixsym_choice("newext", 3);
            a.dataExtent(ne);
            ref.resize(ne);
        } else {                             // sub-region read
            NDSize off(rank, 0), cnt(rank, 1);
            for (size_t k = 0; k < rank; k++) { off[k] = nixsym_choice("off", (uint32_t)ref.ext[k]); cnt[k] = 1 + nixsym_choice("cnt", (uint32_t)(ref.ext[k] - off[k])); }
            std::vector<T> got((size_t)cnt.nelms());
            memset(got.data(), 0xA5, got.size() * sizeof(T));
            a.getData(Sym<T>::dt(), got.data(), cnt, off);
            size_t k = 0;
            for (size_t i = 0; i < (size_t)cnt[0]; i++) for (size_t j = 0; j < (rank == 2 ? (size_t)cnt[1] : 1); j++)
                nixsym_assert(same(got[k++], ref.d[ref.idx((size_t)off[0] + i, rank == 2 ? (size_t)off[1] + j : 0)]), "sub-region read returns the block at (offset,count)");
        }
        check_whole(a, ref);
    }
    a = none; b = none; f.close();
    File g = File::open("c01.h5", FileMode::ReadOnly);
    DataArray a2 = g.getBlock("b").getDataArray("a");
    check_whole(a2, ref);
    nixsym_assert(a2.dataType() == Sym<T>::dt(), "element type preserved");
    nixsym_reach("reopened");
}
extern "C" void vh_c01_rw_f64() { run_rw<double>(); }
extern "C" void vh_c01_rw_f32() { run_rw<float>(); }
extern "C" void vh_c01_rw_i32() { run_rw<int32_t>(); }
extern "C" void vh_c01_rw_i64() { run_rw<int64_t>(); }
extern "C" void vh_c01_rw_u8() { run_rw<uint8_t>(); }
extern "C" void vh_c01_rw_u16() { run_rw<uint16_t>(); }
extern "C" void vh_c01_rw_u64() { run_rw<uint64_t>(); }
extern "C" void vh_c01_rw_i8() { run_rw<int8_t>(); }
extern "C" void vh_c01_rw_i16() { run_rw<int16_t>(); }
extern "C" void vh_c01_rw_u32() { run_rw<uint32_t>(); }

// Bool and String element types
extern "C" void vh_c01_bool_string() {
    nixsym_declare_reach("done");
    File f = File::open("c01b.h5", FileMode::Overwrite);
    Block b = f.createBlock("b", "t");
    DataArray s = b.createDataArray("s", "t", DataType::String, NDSize({2}));
    std::string s0 = sym_name("s", 2, "ab"), s1 = sym_name("s", 2, "ab");
    std::vector<std::string> sv = {s0, s1};
    s.setData(sv);
    s.dataExtent(NDSize({3}));
    std::vector<std::string> got; s.getData(got);
    nixsym_assert(got.size() == 3 && got[0] == s0 && got[1] == s1 && got[2] == "", "strings read back; element exposed by growing reads as empty string");
    DataArray bo = b.createDataArray("bo", "t", DataType::Bool, NDSize({2}));
    bool b0 = nixsym_bool("b") != 0, b1 = nixsym_bool("b") != 0;
    bool bv[2] = {b0, b1};
    bo.setData(DataType::Bool, bv, NDSize({2}), NDSize({0}));
    bool bg[2]; bo.getData(DataType::Bool, bg, NDSize({2}), NDSize({0}));
    nixsym_assert(bg[0] == b0 && bg[1] == b1, "bools read back");
    s = none; bo = none; b = none; f.close();
    File g = File::open("c01b.h5", FileMode::ReadOnly);
    std::vector<std::string> g2; g.getBlock("b").getDataArray("s").getData(g2);
    nixsym_assert(g2.size() == 3 && g2[0] == s0 && g2[1] == s1 && g2[2] == "", "strings after reopen");
    nixsym_reach("done");
}

// reading as another numeric type
extern "C" void vh_c01_convert() {
    nixsym_declare_reach("done");
    File f = File::open("c01c.h5", FileMode::Overwrite);
    Block b = f.createBlock("b", "t");
    DataArray a = b.createDataArray("a", "t", DataType::Int32, NDSize({2}));
    int32_t v0 = nixsym_i32("v"), v1 = nixsym_i32("v");
    std::vector<int32_t> v = {v0, v1};
    a.setData(v);
    std::vector<double> d; a.getData(d);
    nixsym_assert(d.size() == 2 && d[0] == (double)v0 && d[1] == (double)v1, "Int32 data read as Double");
    std::vector<int64_t> l; a.getData(l);
    nixsym_assert(l.size() == 2 && l[0] == (int64_t)v0 && l[1] == (int64_t)v1, "Int32 data read as Int64");
    DataArray fa = b.createDataArray("fa", "t", DataType::Float, NDSize({1}));
    float x = nixsym_f32("x");
    std::vector<float> fv = {x}; fa.setData(fv);
    std::vector<double> fd; fa.getData(fd);
    nixsym_assert(fd.size() == 1 && same(fd[0], (double)x), "Float data read as Double");
    nixsym_reach("done");
}

// calibration: polynomial and expansion origin in the exact regime (integer-valued doubles: every evaluation order is exact).
// Symbolic-by-symbolic FP multiplication is out of the solver's reach, so one factor of every product is concrete:
// regime A: stored values symbolic, coefficients/origin from small concrete sets, degree <= 1;
// regime B: stored values concrete, one coefficient symbolic (the others from a concrete set), degree <= 2.
extern "C" void vh_c01_polynomial() {
    nixsym_declare_reach("done");
    File f = File::open("c01d.h5", FileMode::Overwrite);
    Block b = f.createBlock("b", "t");
    DataArray a = b.createDataArray("a", "t", DataType::Double, NDSize({2}));
    bool regimeA = nixsym_choice("regime", 2) == 0;
    static const int CS[] = {1, -2, 0, 5}, XS[] = {1, -3, 0, 7}, OS[] = {0, 2, -5};
    int32_t x0, x1, c0, c1, c2 = 0, o; uint32_t deg;
    if (regimeA) {
        x0 = nixsym_i32("x"); x1 = nixsym_i32("x");
        nixsym_assume(x0 > -256 && x0 < 256 && x1 > -256 && x1 < 256);
        c0 = CS[nixsym_choice("c0", 4)]; c1 = CS[nixsym_choice("c1", 4)]; o = OS[nixsym_choice("o", 3)];
        deg = nixsym_choice("ncoef", 3);
    } else {
        x0 = XS[nixsym_choice("x0", 2)]; x1 = XS[2 + nixsym_choice("x1", 2)]; o = OS[nixsym_choice("o", 2)];
        // exactly one coefficient is symbolic per run (sums of several symbolic doubles are beyond the solver budget)
        c0 = CS[nixsym_choice("c0", 2)]; c1 = CS[nixsym_choice("c1", 2)]; c2 = CS[2 + nixsym_choice("c2", 2)];
        uint32_t which = nixsym_choice("symcoef", 3);
        int32_t sc = nixsym_i32("c");
        nixsym_assume(sc > -1024 && sc < 1024);
        if (which == 0) c0 = sc; else if (which == 1) c1 = sc; else c2 = sc;
        deg = nixsym_choice("ncoef", 4);
    }
    std::vector<double> raw = {(double)x0, (double)x1};
    a.setData(raw);
    std::vector<double> coef; if (deg > 0) coef.push_back(c0); if (deg > 1) coef.push_back(c1); if (deg > 2) coef.push_back(c2);
    bool with_origin = nixsym_choice("origin", 2) == 1;
    // an earlier calibration (longer or shorter polynomial, other origin) must be replaced completely by the later one
    uint32_t prev = nixsym_choice("prev", 3);
    if (prev == 1) { a.polynomCoefficients({9.0, 8.0, 7.0, 6.0}); a.expansionOrigin(11.0); }
    if (prev == 2) a.polynomCoefficients({9.0});
    if (prev != 0 && deg == 0) a.polynomCoefficients(none);
    if (prev == 1 && !with_origin) a.expansionOrigin(none);
    if (deg > 0) a.polynomCoefficients(coef);
    if (with_origin) a.expansionOrigin((double)o);
    nixsym_assert(a.polynomCoefficients() == coef, "the coefficients read back are the ones set last");
    std::vector<double> cal; a.getData(cal);
    int64_t org = with_origin ? o : 0;
    for (int k = 0; k < 2; k++) {
        int64_t x = (k ? x1 : x0) - org;
        int64_t want = deg == 0 ? x : (int64_t)c0 + (deg > 1 ? (int64_t)c1 * x : 0) + (deg > 2 ? (int64_t)c2 * x * x : 0);
        nixsym_assert(cal[k] == (double)want, "calibrated read = polynomial evaluated at (stored - origin)");
    }
    // the calibrated value converted to the requested element type (8-byte and narrower integer types)
    if (prev == 0 && deg <= 1) {                 // (degree >= 1 adds a symbolic product per element and conversion: beyond the quick budget)
      std::vector<int64_t> c64(2); a.getData(DataType::Int64, c64.data(), NDSize({2}), NDSize({0}));
      std::vector<int32_t> c32(2); a.getData(DataType::Int32, c32.data(), NDSize({2}), NDSize({0}));
      bool same = true;
      for (int k = 0; k < 2; k++) {
        int64_t x = (k ? x1 : x0) - org;
        int64_t want = deg == 0 ? x : (int64_t)c0 + (deg > 1 ? (int64_t)c1 * x : 0) + (deg > 2 ? (int64_t)c2 * x * x : 0);
        same = same & (c64[k] == want) & ((int64_t)c32[k] == want);
      }
      nixsym_assert(same, "calibrated read converted to the requested integer type (Int64, Int32)");
    }
    std::vector<double> direct(2); a.getDataDirect(DataType::Double, direct.data(), NDSize({2}), NDSize({0}));
    nixsym_assert(direct[0] == (double)x0 && direct[1] == (double)x1, "raw reads and stored values unaffected by calibration");
    a.polynomCoefficients(none); a.expansionOrigin(none);
    std::vector<double> back; a.getData(back);
    nixsym_assert(back[0] == (double)x0 && back[1] == (double)x1, "unsetting the calibration restores plain reads");
    nixsym_reach("done");
}

// calibrated reads converted to every numeric element type, into exactly sized buffers (an over-long transfer is a memory error the
// engine reports); concrete values from menus, so this entry is cheap
template <class T> static void cal_read_as(DataArray &a, DataType dt, const int64_t want[3], const char *msg) {
    std::vector<T> buf(3);
    a.getData(dt, buf.data(), NDSize({3}), NDSize({0}));
    bool ok = true; for (int k = 0; k < 3; k++) ok = ok && buf[k] == (T)want[k];
    nixsym_assert(ok, msg);
    std::vector<T> one(1);
    a.getData(dt, one.data(), NDSize({1}), NDSize({2}));
    nixsym_assert(one[0] == (T)want[2], msg);
}
extern "C" void vh_c01_calibrated_types() {
    nixsym_declare_reach("done");
    File f = File::open("c01t.h5", FileMode::Overwrite);
    Block b = f.createBlock("b", "t");
    uint32_t st = nixsym_choice("stored", 3);
    DataArray a = b.createDataArray("a", "t", st == 0 ? DataType::Int32 : st == 1 ? DataType::Double : DataType::UInt8, NDSize({3}));
    std::vector<int32_t> raw = {1, 2, 5};
    a.setData(DataType::Int32, raw.data(), NDSize({3}), NDSize({0}));
    uint32_t cal = nixsym_choice("cal", 3);                       // polynomial 3 + 2x | origin 1 only | both
    if (cal != 1) a.polynomCoefficients({3.0, 2.0});
    if (cal != 0) a.expansionOrigin(1.0);
    int64_t want[3];
    for (int k = 0; k < 3; k++) { int64_t x = raw[k] - (cal != 0 ? 1 : 0); want[k] = cal == 1 ? x : 3 + 2 * x; }
    cal_read_as<double>(a, DataType::Double, want, "calibrated read as Double");
    cal_read_as<float>(a, DataType::Float, want, "calibrated read as Float");
    cal_read_as<int8_t>(a, DataType::Int8, want, "calibrated read as Int8");
    cal_read_as<int16_t>(a, DataType::Int16, want, "calibrated read as Int16");
    cal_read_as<int32_t>(a, DataType::Int32, want, "calibrated read as Int32");
    cal_read_as<int64_t>(a, DataType::Int64, want, "calibrated read as Int64");
    cal_read_as<uint8_t>(a, DataType::UInt8, want, "calibrated read as UInt8");
    cal_read_as<uint16_t>(a, DataType::UInt16, want, "calibrated read as UInt16");
    cal_read_as<uint32_t>(a, DataType::UInt32, want, "calibrated read as UInt32");
    cal_read_as<uint64_t>(a, DataType::UInt64, want, "calibrated read as UInt64");
    std::vector<int32_t> direct(3); a.getDataDirect(DataType::Int32, direct.data(), NDSize({3}), NDSize({0}));
    nixsym_assert(direct == raw, "raw reads unaffected");
    nixsym_reach("done");
}

// K: applyPolynomial order-independent facts for arbitrary doubles
extern "C" void vh_c01_applypoly_kernel() {
    nixsym_declare_reach("done");
    double in[2] = {nixsym_f64("in"), nixsym_f64("in")}, origin = nixsym_f64("origin");
    double out[2] = {7.0, 7.0}, guard[4] = {1.0, 0, 0, 2.0};
    std::vector<double> none_;
    util::applyPolynomial(none_, origin, in, out, 2);
    nixsym_assert(same(out[0], in[0] - origin) && same(out[1], in[1] - origin), "no coefficients: output is input - origin");
    double c0 = nixsym_f64("c0"), c1 = nixsym_f64("c1");
    std::vector<double> coef = {c0, c1};
    double tmp[2] = {in[0], in[1]};
    util::applyPolynomial(coef, origin, in, guard + 1, 2);
    util::applyPolynomial(coef, origin, tmp, tmp, 2);          // in place, as ioRead uses it
    nixsym_assert(same(tmp[0], guard[1]) && same(tmp[1], guard[2]), "in-place evaluation equals out-of-place evaluation");
    nixsym_assert(guard[0] == 1.0 && guard[3] == 2.0, "nothing outside [0,n) is written");
    nixsym_reach("done");
}

// K: chunk guessing always yields what H5Pset_chunk accepts
extern "C" void vh_c01_chunks() {
    nixsym_declare_reach("done");
    uint32_t rank = 1 + nixsym_choice("rank", 3);
    static const uint64_t cand[] = {0, 1, 2, 3, 1000, 1024, 65536, 1048576, 4294967296ULL};
    NDSize dims(rank, 1);
    for (uint32_t k = 0; k < rank; k++) dims[k] = cand[nixsym_choice("dim", 9)];
    static const size_t es[] = {1, 2, 4, 8, 16};
    size_t esz = es[nixsym_choice("esize", 5)];
    NDSize c = nix::hdf5::DataSet::guessChunking(dims, esz);
    nixsym_assert(c.size() == rank, "chunk rank equals data rank");
    unsigned long long bytes = esz;
    for (uint32_t k = 0; k < rank; k++) { nixsym_assert(c[k] >= 1 && c[k] <= 0xffffffffULL, "every chunk dimension is in 1..2^32-1"); bytes *= c[k]; }
    nixsym_assert(bytes <= 1024ULL * 1024ULL || c.nelms() == 1, "chunk is at most CHUNK_MAX bytes unless it is a single element");
    nixsym_reach("done");
}
