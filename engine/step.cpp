// nixsym: instruction stepping, calls, exceptions, RTTI
#include "exec.hpp"
#include <llvm/Support/raw_ostream.h>
#include <llvm/IR/GetElementPtrTypeIterator.h>
#include <sstream>
using namespace llvm;

void Executor::pushFrame(State &s, Function *f, const std::vector<Val> &args) {
    if (s.stack.size() > 600) throw EngineError("call stack too deep (recursion?) in " + f->getName().str());
    Frame fr;
    fr.fn = f; fr.fi = getInfo(f);
    fr.regs.resize(fr.fi->n);
    unsigned i = 0;
    for (auto &a : f->args()) { if (i < args.size()) fr.regs[i] = args[i]; i++; }
    for (; i < args.size(); i++) fr.varargs.push_back(args[i]);
    fr.bb = &f->getEntryBlock(); fr.prev = nullptr; fr.pc = fr.bb->begin();
    covered.insert(f);
    s.stack.push_back(std::move(fr));
    // byval arguments: callee owns a copy
    unsigned ai = 0;
    for (auto &a : f->args()) {
        if (a.hasByValAttr() && ai < args.size()) {
            Type *t = a.getParamByValType();
            uint64_t sz = DL->getTypeAllocSize(t);
            ObjP o = s.mem.alloc(sz, MemObj::STACK, "byval." + f->getName().str());
            s.stack.back().allocas.push_back(o->base);
            memCopy(s, mkPtr(o->base), args[ai], mkInt(64, sz), nullptr, false);
            s.stack.back().regs[ai] = mkPtr(o->base);
        }
        ai++;
    }
}
void Executor::popFrame(State &s) {
    Frame &f = s.stack.back();
    for (uint64_t b : f.allocas) s.mem.erase(b);  // stack objects vanish; dangling pointers hit "unmapped"
    s.stack.pop_back();
}
void Executor::enterBlock(State &s, BasicBlock *to) {
    Frame &f = s.stack.back();
    BasicBlock *from = f.bb;
    // evaluate phis simultaneously
    std::vector<std::pair<const Value *, Val>> vals;
    auto it = to->begin();
    for (; it != to->end(); ++it) {
        auto *phi = dyn_cast<PHINode>(&*it);
        if (!phi) break;
        vals.push_back({phi, eval(s, phi->getIncomingValueForBlock(from))});
    }
    for (auto &p : vals) setReg(s, p.first, p.second);
    f.prev = from; f.bb = to; f.pc = it;
}
void Executor::endPath(State &s, const char *how) {
    (void)how;
}

void Executor::returnFromCall(State &s, const Val &rv, bool hasVal) {
    // top frame is the caller, pc at the call/invoke
    Frame &f = s.stack.back();
    Instruction *ci = &*f.pc;
    if (hasVal && !ci->getType()->isVoidTy()) setReg(s, ci, rv);
    if (auto *inv = dyn_cast<InvokeInst>(ci)) enterBlock(s, inv->getNormalDest());
    else ++f.pc;
}

uint64_t Executor::typeIdFor(uint64_t tiAddr) {
    if (tiAddr == 0) return 0x7ffffff0;
    return (tiAddr >> 4) & 0x7fffffff;
}

// Propagate s.inflight. popFirst: leave the current frame first (resume). Returns false if the path ended (uncaught).
bool Executor::raise(State &s, bool popFirst) {
    s.unwinding = true;
    if (popFirst) popFrame(s);
    while (!s.stack.empty()) {
        Frame &f = s.stack.back();
        Instruction *ci = (f.pc != f.bb->end()) ? &*f.pc : nullptr;
        if (auto *inv = dyn_cast_or_null<InvokeInst>(ci)) {
            BasicBlock *lpb = inv->getUnwindDest();
            LandingPadInst *lp = lpb->getLandingPadInst();
            int64_t sel = -1;
            for (unsigned i = 0; i < lp->getNumClauses() && sel < 0; i++) {
                if (lp->isCatch(i)) {
                    Val t = evalConst(s, lp->getClause(i));
                    if (t.lo == 0 || isSubtype(s.inflight.ti, t.lo)) sel = (int64_t)typeIdFor(t.lo);
                } else {
                    // filter clause (exception specification): an empty filter means nothing may pass
                    auto *arr = lp->getClause(i);
                    if (arr->getType()->getArrayNumElements() == 0) sel = -2;
                }
            }
            if (sel == -2) { fail(s, "uncaught", "exception violates noexcept/throw() specification -> std::terminate", ci, nullptr); return false; }
            if (sel >= 0 || lp->isCleanup()) {
                enterBlock(s, lpb);
                // pc now at landingpad (first non-phi); set its value and step over it
                Frame &f2 = s.stack.back();
                Val lv = mkAgg({mkPtr(s.inflight.obj), mkInt(32, sel >= 0 ? (uint64_t)sel : 0)});
                setReg(s, lp, lv);
                f2.pc = std::next(BasicBlock::iterator(lp));
                s.unwinding = false;
                return true;
            }
        }
        popFrame(s);
    }
    // uncaught at harness top level
    std::string tn = "?";
    auto it = tiByAddr.find(s.inflight.ti);
    if (it != tiByAddr.end()) tn = it->second->getName().str();
    fail(s, "uncaught", "exception of type " + tn + " escaped the harness entry", nullptr, nullptr);
    return false;
}

bool Executor::doCall(State &s, CallBase *cb) {
    Value *callee = cb->getCalledOperand();
    Function *f = dyn_cast<Function>(callee->stripPointerCasts());
    if (!f) {
        Val fp = eval(s, callee);
        if (!concretize(s, fp, cb, "function pointer", 8)) return false;
        auto it = faddr.find(fp.lo);
        if (it == faddr.end()) {
            std::ostringstream m; m << "indirect call through invalid function pointer 0x" << std::hex << fp.lo;
            fail(s, "memory", m.str(), cb, nullptr); return false;
        }
        f = it->second;
    }
    { auto rit = redirect.find(f); if (rit != redirect.end()) { redirectUsed.insert(f->getName().str()); f = rit->second; } }
    std::vector<Val> args;
    args.reserve(cb->arg_size());
    for (unsigned i = 0; i < cb->arg_size(); i++) args.push_back(eval(s, cb->getArgOperand(i)));
    Val ret; bool handled = false, ended = false;
    bool cont = native(s, cb, f, args, ret, handled, ended);
    if (ended) return false;
    if (!cont) return true;     // control already transferred (exception landed in a handler, or instruction will be re-executed)
    if (handled) {
        returnFromCall(s, ret, true);
        return true;
    }
    if (f->isDeclaration()) throw EngineError("call to unmodelled external function " + f->getName().str() + " at " + locOf(cb));
    pushFrame(s, f, args);
    return true;
}

bool Executor::step(State &s) {
    Frame &f = s.stack.back();
    Instruction *I = &*f.pc;
    s.insns++; totalInsns++;
    switch (I->getOpcode()) {
    case Instruction::Ret: {
        auto *ri = cast<ReturnInst>(I);
        Val rv; bool has = false;
        if (ri->getReturnValue()) { rv = eval(s, ri->getReturnValue()); has = true; }
        popFrame(s);
        if (s.stack.empty()) return false;
        returnFromCall(s, rv, has);
        return true;
    }
    case Instruction::Br: {
        auto *bi = cast<BranchInst>(I);
        if (bi->isUnconditional()) { enterBlock(s, bi->getSuccessor(0)); return true; }
        Val c = eval(s, bi->getCondition());
        if (c.k == Val::INT || c.k == Val::UNDEF) { enterBlock(s, bi->getSuccessor(c.lo & 1 ? 0 : 1)); return true; }
        z3::expr ce = toBool(c);
        bool t, fl; branchOn(s, ce, t, fl);
        if (t && fl) {
            StateP o = fork(s);
            addPC(*o, !ce);
            enterBlock(*o, bi->getSuccessor(1));
            work.push_back(std::move(o));
            addPC(s, ce);
            enterBlock(s, bi->getSuccessor(0));
        } else if (t) { addPC(s, ce); enterBlock(s, bi->getSuccessor(0)); }
        else if (fl) { addPC(s, !ce); enterBlock(s, bi->getSuccessor(1)); }
        else return false;
        return true;
    }
    case Instruction::Switch: {
        auto *si = cast<SwitchInst>(I);
        Val c = eval(s, si->getCondition());
        if (c.k == Val::INT || c.k == Val::UNDEF) {
            BasicBlock *dst = si->getDefaultDest();
            for (auto cs : si->cases()) if (cs.getCaseValue()->getZExtValue() == c.lo) { dst = cs.getCaseSuccessor(); break; }
            enterBlock(s, dst); return true;
        }
        z3::expr ce = toBV(c);
        z3::expr none = ZC->bool_val(true);
        bool used = false;
        std::vector<std::pair<z3::expr, BasicBlock *>> targets;
        for (auto cs : si->cases()) {
            z3::expr eq = (ce == ZC->bv_val((uint64_t)cs.getCaseValue()->getZExtValue(), c.bits));
            none = none && !eq;
            targets.push_back({eq, cs.getCaseSuccessor()});
        }
        targets.push_back({none, si->getDefaultDest()});
        std::vector<std::pair<z3::expr, BasicBlock *>> feas;
        for (auto &t : targets) { bool u; if (mayBeTrue(s, t.first, u)) feas.push_back(t); }
        if (feas.empty()) return false;
        for (size_t i = 1; i < feas.size(); i++) {
            StateP o = fork(s); addPC(*o, feas[i].first); enterBlock(*o, feas[i].second); work.push_back(std::move(o));
        }
        (void)used;
        addPC(s, feas[0].first); enterBlock(s, feas[0].second);
        return true;
    }
    case Instruction::Unreachable:
        fail(s, "unreachable", "'unreachable' executed (undefined behaviour, e.g. falling off a non-void function or returning from noreturn)", I, nullptr);
        return false;
    case Instruction::Invoke: case Instruction::Call: {
        return doCall(s, cast<CallBase>(I));
    }
    case Instruction::Resume:
        return raise(s, true);
    case Instruction::LandingPad:
        throw EngineError("landingpad executed directly");
    case Instruction::Alloca: {
        auto *ai = cast<AllocaInst>(I);
        Val n = eval(s, ai->getArraySize());
        if (!concretize(s, n, I, "alloca size")) return false;
        uint64_t sz = DL->getTypeAllocSize(ai->getAllocatedType()) * n.lo;
        ObjP o = s.mem.alloc(sz, MemObj::STACK, (ai->hasName() ? ai->getName().str() : std::string("alloca")) + "@" + f.fn->getName().str(), ai->getAlign().value());
        memset(o->data.data(), 0xCD, sz);
        s.stack.back().allocas.push_back(o->base);
        setReg(s, I, mkPtr(o->base));
        break;
    }
    case Instruction::Load: {
        auto *li = cast<LoadInst>(I);
        Val out;
        if (!loadVal(s, eval(s, li->getPointerOperand()), li->getType(), I, out)) return false;
        setReg(s, I, out);
        break;
    }
    case Instruction::Store: {
        auto *si = cast<StoreInst>(I);
        if (!storeVal(s, eval(s, si->getPointerOperand()), si->getValueOperand()->getType(), eval(s, si->getValueOperand()), I)) return false;
        break;
    }
    case Instruction::GetElementPtr: {
        auto *gep = cast<GetElementPtrInst>(I);
        Val base = eval(s, gep->getPointerOperand());
        uint64_t coff = 0;
        z3::expr soff(*ZC); bool hasSym = false;
        for (auto gti = gep_type_begin(gep), e = gep_type_end(gep); gti != e; ++gti) {
            Val idx = eval(s, gti.getOperand());
            if (StructType *st = gti.getStructTypeOrNull()) {
                coff += DL->getStructLayout(st)->getElementOffset((unsigned)idx.lo);
            } else {
                uint64_t es = DL->getTypeAllocSize(gti.getIndexedType());
                if (idx.k == Val::INT || idx.k == Val::UNDEF) coff += (uint64_t)sext64(idx.lo, idx.bits) * es;
                else {
                    z3::expr ie = toBV(idx);
                    if (idx.bits < 64) ie = z3::sext(ie, 64 - idx.bits);
                    z3::expr t = ie * ZC->bv_val((uint64_t)es, 64);
                    if (hasSym) soff = soff + t; else { soff = t; hasSym = true; }
                }
            }
        }
        if (!hasSym && (base.k == Val::INT || base.k == Val::UNDEF)) setReg(s, I, mkPtr(base.lo + coff));
        else {
            z3::expr r = toBV(base) + ZC->bv_val((uint64_t)coff, 64);
            if (hasSym) r = r + soff;
            setReg(s, I, symFromBV(r, 64));
        }
        break;
    }
    case Instruction::ICmp: {
        auto *c = cast<ICmpInst>(I);
        setReg(s, I, icmp(c->getPredicate(), eval(s, c->getOperand(0)), eval(s, c->getOperand(1))));
        break;
    }
    case Instruction::FCmp: {
        auto *c = cast<FCmpInst>(I);
        setReg(s, I, fcmp(c->getPredicate(), eval(s, c->getOperand(0)), eval(s, c->getOperand(1))));
        break;
    }
    case Instruction::Select: {
        Val c = eval(s, I->getOperand(0));
        Val a = eval(s, I->getOperand(1)), b = eval(s, I->getOperand(2));
        if (c.k == Val::INT || c.k == Val::UNDEF) { setReg(s, I, (c.lo & 1) ? a : b); break; }
        z3::expr ce = toBool(c);
        Type *t = I->getType();
        if (t->isFloatingPointTy()) setReg(s, I, symFromFP(z3::ite(ce, toFPx(a), toFPx(b)), t->isDoubleTy() ? 64 : 32));
        else if (t->isIntegerTy(1)) setReg(s, I, symFromBool(z3::ite(ce, toBool(a), toBool(b))));
        else if (t->isIntegerTy() || t->isPointerTy()) {
            if (a.k == Val::UNDEF) a = mkInt(b.bits, 0);
            if (b.k == Val::UNDEF) b = mkInt(a.bits, 0);
            setReg(s, I, symFromBV(z3::ite(ce, toBV(a), toBV(b)), a.bits));
        }
        else throw EngineError("select on aggregate with symbolic condition");
        break;
    }
    case Instruction::PHI:
        throw EngineError("phi executed directly");
    case Instruction::ExtractValue: {
        auto *ev = cast<ExtractValueInst>(I);
        Val a = eval(s, ev->getAggregateOperand());
        for (unsigned i : ev->indices()) { if (a.k != Val::AGG || !a.agg) { a = Val(); break; } Val t = (*a.agg)[i]; a = t; }
        if (a.k == Val::UNDEF) {
            Type *t = I->getType();
            if (t->isIntegerTy()) a = mkInt(t->getIntegerBitWidth(), 0); else if (t->isPointerTy()) a = mkPtr(0);
        }
        setReg(s, I, a);
        break;
    }
    case Instruction::InsertValue: {
        auto *iv = cast<InsertValueInst>(I);
        Val a = eval(s, iv->getAggregateOperand());
        Val x = eval(s, iv->getInsertedValueOperand());
        std::function<Val(Val, Type *, ArrayRef<unsigned>)> ins = [&](Val agg, Type *ty, ArrayRef<unsigned> idx) -> Val {
            if (idx.empty()) return x;
            unsigned n = ty->isStructTy() ? ty->getStructNumElements() : ty->getArrayNumElements();
            std::vector<Val> v;
            if (agg.k == Val::AGG && agg.agg) v = *agg.agg; else v.resize(n);
            Type *et = ty->isStructTy() ? ty->getStructElementType(idx[0]) : ty->getArrayElementType();
            v[idx[0]] = ins(v[idx[0]], et, idx.slice(1));
            return mkAgg(v);
        };
        setReg(s, I, ins(a, iv->getAggregateOperand()->getType(), iv->getIndices()));
        break;
    }
    case Instruction::FNeg:
        setReg(s, I, fpUnary("fneg", eval(s, I->getOperand(0))));
        break;
    case Instruction::Freeze:
        setReg(s, I, eval(s, I->getOperand(0)));
        break;
    case Instruction::Fence:
        break;
    case Instruction::AtomicRMW: {
        auto *rmw = cast<AtomicRMWInst>(I);
        Val p = eval(s, rmw->getPointerOperand()), v = eval(s, rmw->getValOperand()), old;
        if (!loadVal(s, p, rmw->getType(), I, old)) return false;
        bool ok; Val nv;
        switch (rmw->getOperation()) {
        case AtomicRMWInst::Xchg: nv = v; break;
        case AtomicRMWInst::Add: nv = binop(s, Instruction::Add, old, v, I, ok); break;
        case AtomicRMWInst::Sub: nv = binop(s, Instruction::Sub, old, v, I, ok); break;
        case AtomicRMWInst::And: nv = binop(s, Instruction::And, old, v, I, ok); break;
        case AtomicRMWInst::Or: nv = binop(s, Instruction::Or, old, v, I, ok); break;
        case AtomicRMWInst::Xor: nv = binop(s, Instruction::Xor, old, v, I, ok); break;
        default: throw EngineError("atomicrmw operation unsupported");
        }
        if (!storeVal(s, p, rmw->getType(), nv, I)) return false;
        setReg(s, I, old);
        break;
    }
    case Instruction::AtomicCmpXchg: {
        auto *cx = cast<AtomicCmpXchgInst>(I);
        Val p = eval(s, cx->getPointerOperand()), cmp = eval(s, cx->getCompareOperand()), nv = eval(s, cx->getNewValOperand()), old;
        if (!loadVal(s, p, cx->getCompareOperand()->getType(), I, old)) return false;
        Val eq = icmp(CmpInst::ICMP_EQ, old, cmp);
        if (eq.k != Val::INT) throw EngineError("cmpxchg with symbolic comparison");
        if (eq.lo) if (!storeVal(s, p, cx->getCompareOperand()->getType(), nv, I)) return false;
        setReg(s, I, mkAgg({old, eq}));
        break;
    }
    case Instruction::VAArg:
        throw EngineError("va_arg unsupported");
    default: {
        if (I->isBinaryOp()) {
            bool ok;
            Val r = binop(s, I->getOpcode(), eval(s, I->getOperand(0)), eval(s, I->getOperand(1)), I, ok);
            if (!ok) return false;
            setReg(s, I, r);
            break;
        }
        if (I->isCast()) {
            bool ok;
            Val r = castop(s, I->getOpcode(), eval(s, I->getOperand(0)), I->getOperand(0)->getType(), I->getType(), I, ok);
            if (!ok) return false;
            setReg(s, I, r);
            break;
        }
        throw EngineError(std::string("unsupported instruction: ") + I->getOpcodeName());
    }
    }
    ++s.stack.back().pc;
    return true;
}

// ---------------- RTTI ----------------
void Executor::parseTypeInfos() {
    for (GlobalVariable &g : M->globals()) {
        if (!g.getName().startswith("_ZTI")) continue;
        uint64_t a = gaddr[&g];
        tiByAddr[a] = &g;
        if (!g.hasInitializer()) continue;
        auto *cs = dyn_cast<ConstantStruct>(g.getInitializer());
        if (!cs || cs->getNumOperands() < 2) continue;
        std::string vt;
        if (auto *ce = dyn_cast<ConstantExpr>(cs->getOperand(0))) {
            Value *b = ce->stripPointerCasts();
            if (auto *gep = dyn_cast<GEPOperator>(ce)) b = gep->getPointerOperand()->stripPointerCasts();
            else if (auto *bc = dyn_cast<ConstantExpr>(ce->getOperand(0))) if (auto *g2 = dyn_cast<GEPOperator>(bc)) b = g2->getPointerOperand()->stripPointerCasts();
            vt = b->getName().str();
        }
        std::vector<BaseInfo> bs;
        State dummy;
        if (vt.find("__si_class_type_info") != std::string::npos && cs->getNumOperands() >= 3) {
            Val b = evalConst(dummy, cs->getOperand(2));
            bs.push_back({b.lo, 0, false, true});
        } else if (vt.find("__vmi_class_type_info") != std::string::npos && cs->getNumOperands() >= 4) {
            // { vptr, name, flags, count, base0, off0, base1, off1 ... }
            for (unsigned i = 4; i + 1 < cs->getNumOperands(); i += 2) {
                Val b = evalConst(dummy, cs->getOperand(i));
                Val of = evalConst(dummy, cs->getOperand(i + 1));
                int64_t flags = (int64_t)of.lo;
                bs.push_back({b.lo, flags >> 8, (flags & 1) != 0, (flags & 2) != 0});
            }
        }
        bases[a] = bs;
    }
}
bool Executor::isSubtype(uint64_t thrown, uint64_t caught, int depth) {
    if (thrown == caught) return true;
    if (depth > 16) return false;
    auto it = bases.find(thrown);
    if (it == bases.end()) return false;
    for (auto &b : it->second) if (isSubtype(b.ti, caught, depth + 1)) return true;
    return false;
}
bool Executor::dynCast(State &s, uint64_t ptr, uint64_t srcTi, uint64_t dstTi, uint64_t &out, const Instruction *at) {
    (void)srcTi;
    auto rd = [&](uint64_t a, uint64_t &v) -> bool {
        MemObj *o; uint64_t off;
        if (!resolve(s, mkPtr(a), 8, false, at, o, off, nullptr)) return false;
        Val x = loadScalar(o, off, 8, 64, false);
        if (x.k != Val::INT) throw EngineError("symbolic vptr in dynamic_cast");
        v = x.lo; return true;
    };
    uint64_t vptr, mdti, off2top;
    if (!rd(ptr, vptr) || !rd(vptr - 8, mdti) || !rd(vptr - 16, off2top)) return false;
    uint64_t md = ptr + off2top;
    std::set<uint64_t> found;
    bool okAll = true;
    std::function<void(uint64_t, uint64_t, int)> walk = [&](uint64_t ti, uint64_t p, int d) {
        if (ti == dstTi) { found.insert(p); return; }
        if (d > 16) return;
        auto it = bases.find(ti);
        if (it == bases.end()) return;
        for (auto &b : it->second) {
            uint64_t sub;
            if (b.isVirtual) {
                uint64_t vp, vo;
                if (!rd(p, vp) || !rd(vp + b.offset, vo)) { okAll = false; return; }
                sub = p + vo;
            } else sub = p + b.offset;
            walk(b.ti, sub, d + 1);
        }
    };
    walk(mdti, md, 0);
    if (!okAll) return false;
    out = found.size() == 1 ? *found.begin() : 0;
    return true;
}
