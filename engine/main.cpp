// nixsym: driver (module loading, exploration loop, JSON report)
#include "exec.hpp"
#include <llvm/IRReader/IRReader.h>
#include <llvm/Support/SourceMgr.h>
#include <llvm/Support/raw_ostream.h>
#include <llvm/IR/LLVMContext.h>
#include <llvm/Demangle/Demangle.h>
#include <fstream>
#include <iostream>
#include <sstream>
using namespace llvm;

static std::string jesc(const std::string &s) {
    std::string r;
    for (unsigned char c : s) {
        if (c == '"' || c == '\\') { r += '\\'; r += c; }
        else if (c == '\n') r += "\\n";
        else if (c < 0x20 || c >= 0x7f) { char b[8]; snprintf(b, sizeof b, "\\u%04x", c); r += b; }
        else r += c;
    }
    return r;
}

void Executor::runState(StateP sp) {
    State &s = *sp;
    bool budget = false;
    try {
        while (!s.stack.empty()) {
            if (s.insns > opt.maxInsnsPerPath) { budget = true; break; }
            if ((s.insns & 0xfff) == 0 && elapsed() > opt.timeoutS) { budget = true; break; }
            if (!step(s)) break;
        }
    } catch (EngineError &e) {
        std::string where = s.stack.empty() ? "" : (" in " + s.stack.back().fn->getName().str() + " @ " + (s.stack.back().pc != s.stack.back().bb->end() ? locOf(&*s.stack.back().pc) : "?"));
        inconclusive = true; inconclusiveWhy = std::string("engine error: ") + e.what() + where;
        Failure f; f.kind = "engine"; f.msg = e.what() + where; fillModel(s, f, nullptr);
        if (failureKeys.insert("engine|" + f.msg).second) failures.push_back(f);
        pathsError++;
        return;
    } catch (z3::exception &e) {
        inconclusive = true; inconclusiveWhy = std::string("z3 exception: ") + e.msg();
        Failure f; f.kind = "engine"; f.msg = std::string("z3 exception: ") + e.msg(); fillModel(s, f, nullptr);
        if (failureKeys.insert("engine|" + f.msg).second) failures.push_back(f);
        pathsError++;
        return;
    }
    if (budget) { pathsBudget++; inconclusive = true; inconclusiveWhy = "instruction or time budget exhausted on a path"; return; }
    if (s.stack.empty()) {
        pathsDone++;
        if (s.assertedSomething) pathsWithSymAssert++;
        if (s.assertedAny) pathsWithAssert++;
        for (auto &l : s.reached) reachCount[l]++;
        if (opt.concrete) concreteTraces.push_back(s.trace);
        if (!s.trace.empty() && pathTraces.size() < 8) pathTraces.push_back(s.trace);
        if (samplePaths.size() < 6 && !opt.concrete && (pathsDone % 7 == 1 || samplePaths.size() < 2)) {
            // sample: one model of this path
            z3::model m(*ZC);
            if (check(s, ZC->bool_val(true), opt.branchTimeoutMs, &m) == z3::sat) {
                Failure f; fillModel(s, f, &m);
                std::ostringstream o; o << "{\"inputs\":{";
                bool first = true;
                for (auto &kv : f.model) { if (!first) o << ","; first = false; o << "\"" << jesc(kv.first) << "\":\"" << jesc(kv.second) << "\""; }
                o << "},\"reached\":[";
                first = true;
                for (auto &l : s.reached) { if (!first) o << ","; first = false; o << "\"" << jesc(l) << "\""; }
                o << "],\"path_constraints\":" << s.pc.size() << "}";
                samplePaths.push_back(o.str());
            }
        }
    }
}

void Executor::run() {
    StateP init = std::make_unique<State>();
    init->id = 0;
    initGlobals(*init);
    Function *entry = M->getFunction(opt.entry);
    if (!entry || entry->isDeclaration()) throw EngineError("entry function not found: " + opt.entry);
    // global constructors, in priority order, concretely
    std::vector<std::pair<uint64_t, Function *>> ctors;
    if (GlobalVariable *gc = M->getGlobalVariable("llvm.global_ctors")) {
        if (auto *arr = dyn_cast<ConstantArray>(gc->getInitializer()))
            for (auto &op : arr->operands()) {
                auto *cs = cast<ConstantStruct>(op);
                if (auto *fn = dyn_cast<Function>(cs->getOperand(1)->stripPointerCasts()))
                    ctors.push_back({cast<ConstantInt>(cs->getOperand(0))->getZExtValue(), fn});
            }
    }
    std::stable_sort(ctors.begin(), ctors.end(), [](auto &a, auto &b) { return a.first < b.first; });
    for (auto &c : ctors) {
        pushFrame(*init, c.second, {});
        try {
            while (!init->stack.empty()) if (!step(*init)) break;
        } catch (EngineError &e) {
            throw EngineError(std::string("in global constructor ") + c.second->getName().str() + ": " + e.what() +
                              (init->stack.empty() ? "" : " in " + init->stack.back().fn->getName().str()));
        }
        if (!init->stack.empty()) throw EngineError("global constructor did not finish: " + c.second->getName().str());
        if (!work.empty()) throw EngineError("global constructor forked: " + c.second->getName().str());
    }
    uint64_t ctorInsns = totalInsns;
    (void)ctorInsns;
    init->insns = 0;
    pushFrame(*init, entry, {});
    work.push_back(std::move(init));
    while (!work.empty()) {
        if (pathsDone + pathsError + pathsBudget >= opt.maxPaths) { inconclusive = true; inconclusiveWhy = "path budget exhausted"; break; }
        if (elapsed() > opt.timeoutS) { inconclusive = true; inconclusiveWhy = "time budget exhausted"; break; }
        if (opt.stopOnFirst && !failures.empty()) break;
        StateP s = std::move(work.back());
        work.pop_back();
        runState(std::move(s));
    }
}

static void usage() {
    errs() << "usage: nixsym module.bc --entry NAME [--out FILE] [--max-paths N] [--max-insns N] [--timeout S]\n"
              "              [--branch-timeout-ms N] [--assert-timeout-ms N] [--concrete FILE] [--stop-on-first] [-v]\n";
}

int main(int argc, char **argv) {
    Options opt; std::string modPath, outPath, concFile;
    for (int i = 1; i < argc; i++) {
        std::string a = argv[i];
        auto nx = [&]() -> std::string { if (i + 1 >= argc) { usage(); exit(2); } return argv[++i]; };
        if (a == "--entry") opt.entry = nx();
        else if (a == "--out") outPath = nx();
        else if (a == "--max-paths") opt.maxPaths = std::stoull(nx());
        else if (a == "--max-insns") opt.maxInsnsPerPath = std::stoull(nx());
        else if (a == "--timeout") opt.timeoutS = std::stod(nx());
        else if (a == "--branch-timeout-ms") opt.branchTimeoutMs = std::stoul(nx());
        else if (a == "--assert-timeout-ms") opt.assertTimeoutMs = std::stoul(nx());
        else if (a == "--concrete") { concFile = nx(); opt.concrete = true; }
        else if (a == "--stop-on-first") opt.stopOnFirst = true;
        else if (a == "--no-dedup") opt.dedupFailures = 0;
        else if (a == "--no-slice") opt.noSlice = true;
        else if (a == "--profile") opt.profile = true;
        else if (a == "--symbolic-entropy") opt.symbolicEntropy = true;
        else if (a == "--dump-unknown") opt.dumpDir = nx();
        else if (a == "--dump-all") { opt.dumpDir = nx(); opt.dumpAll = true; }
        else if (a == "--fix") { std::string kv = nx(); size_t e = kv.find('='); if (e != std::string::npos) opt.fixedChoice[kv.substr(0, e)] = std::stoull(kv.substr(e + 1)); }
        else if (a == "--no-replace") opt.noReplace.insert(nx());
        else if (a == "--known") { std::string l = nx(); size_t p0 = 0; while (p0 <= l.size()) { size_t c = l.find(',', p0); if (c == std::string::npos) c = l.size(); if (c > p0) opt.knownIds.insert(l.substr(p0, c - p0)); p0 = c + 1; } }
        else if (a == "-v") opt.verbose = true;
        else if (a[0] != '-') modPath = a;
        else { usage(); return 2; }
    }
    if (modPath.empty() || opt.entry.empty()) { usage(); return 2; }
    if (opt.concrete) {
        std::ifstream in(concFile); std::string line;
        while (std::getline(in, line)) {
            size_t sp = line.find(' ');
            if (sp == std::string::npos) continue;
            opt.concreteInputs[line.substr(0, sp)].push_back(line.substr(sp + 1));
        }
    }
    z3::context zc; ZC = &zc;
    LLVMContext ctx; SMDiagnostic err;
    std::unique_ptr<Module> M = parseIRFile(modPath, err, ctx);
    if (!M) { err.print("nixsym", errs()); return 2; }
    Executor ex(M.get(), opt);
    std::string fatal;
    try { ex.run(); }
    catch (EngineError &e) { fatal = e.what(); ex.inconclusive = true; ex.inconclusiveWhy = std::string("fatal engine error: ") + e.what(); }
    catch (z3::exception &e) { fatal = e.msg(); ex.inconclusive = true; ex.inconclusiveWhy = std::string("fatal z3 error: ") + e.msg(); }

    // reach labels
    std::vector<std::string> missing;
    for (auto &l : ex.declaredReach) if (!ex.reachCount.count(l)) missing.push_back(l);

    std::ostringstream o;
    o << "{\n \"entry\":\"" << jesc(opt.entry) << "\",\n";
    o << " \"status\":\"" << (ex.inconclusive ? "inconclusive" : (!ex.failures.empty() ? "violations" : (!missing.empty() ? "vacuous" : "ok"))) << "\",\n";
    o << " \"inconclusive_reason\":\"" << jesc(ex.inconclusiveWhy) << "\",\n";
    o << " \"paths_completed\":" << ex.pathsDone << ",\"paths_assumed_away\":" << ex.pathsKilledAssume << ",\"paths_engine_error\":" << ex.pathsError
      << ",\"paths_budget\":" << ex.pathsBudget << ",\"paths_pending\":" << ex.work.size() << ",\"forks\":" << ex.forks << ",\n";
    o << " \"paths_with_assert\":" << ex.pathsWithAssert << ",\"paths_with_symbolic_assert\":" << ex.pathsWithSymAssert << ",\"asserts_checked\":" << ex.assertsChecked << ",\"asserts_symbolic\":" << ex.assertsSymbolic << ",\n";
    o << " \"instructions\":" << ex.totalInsns << ",\n";
    o << " \"queries\":{\"total\":" << ex.qTotal << ",\"sat\":" << ex.qSat << ",\"unsat\":" << ex.qUnsat << ",\"unknown\":" << ex.qUnknown << ",\"decided_from_path_facts\":" << ex.qCached << ",\"fp_bitblast\":" << ex.qHeavy << ",\"decided_by\":{\"bitblast_sat\":" << ex.stratWins[0] << ",\"qffpbv\":" << ex.stratWins[1] << ",\"smt\":" << ex.stratWins[2] << ",\"cvc5\":" << ex.extWins[0] << ",\"z3-5.1\":" << ex.extWins[1] << "}" << ",\"slowest_s\":" << ex.slowestQ << "},\"solver_s\":" << ex.solverS << ",\"wall_s\":" << ex.elapsed() << ",\n";
    o << " \"reach\":{";
    { bool first = true; for (auto &kv : ex.reachCount) { if (!first) o << ","; first = false; o << "\"" << jesc(kv.first) << "\":" << kv.second; } }
    o << "},\n \"reach_missing\":[";
    { bool first = true; for (auto &l : missing) { if (!first) o << ","; first = false; o << "\"" << jesc(l) << "\""; } }
    o << "],\n \"natives\":{";
    { bool first = true; for (auto &kv : ex.nativeUse) { if (!first) o << ","; first = false; o << "\"" << jesc(kv.first) << "\":" << kv.second; } }
    o << "},\n \"replaced\":[";
    { bool first = true; for (auto &x : ex.redirectUsed) { if (!first) o << ","; first = false; o << "\"" << jesc(demangle(x)) << "\""; } }
    o << "],\n \"functions\":[";
    {
        std::vector<std::string> fs;
        for (auto *f : ex.covered) {
            std::string file;
            if (auto *sp = f->getSubprogram()) file = sp->getFilename().str() + ":" + std::to_string(sp->getLine());
            fs.push_back(demangle(f->getName().str()) + "  " + file);
        }
        std::sort(fs.begin(), fs.end());
        bool first = true; for (auto &x : fs) { if (!first) o << ","; first = false; o << "\n  \"" << jesc(x) << "\""; }
    }
    o << "],\n \"samples\":[";
    { bool first = true; for (auto &x : ex.samplePaths) { if (!first) o << ","; first = false; o << "\n  " << x; } }
    o << "],\n \"traces\":[";
    { bool first = true; for (auto &t : ex.pathTraces) { if (!first) o << ","; first = false; o << "["; bool f2 = true; for (auto &l : t) { if (!f2) o << ","; f2 = false; o << "\"" << jesc(l) << "\""; } o << "]"; } }
    o << "],\n \"concrete_traces\":[";
    { bool first = true; for (auto &t : ex.concreteTraces) { if (!first) o << ","; first = false; o << "["; bool f2 = true; for (auto &l : t) { if (!f2) o << ","; f2 = false; o << "\"" << jesc(l) << "\""; } o << "]"; } }
    o << "],\n \"failures\":[";
    {
        bool first = true;
        for (auto &f : ex.failures) {
            if (!first) o << ","; first = false;
            o << "\n  {\"kind\":\"" << jesc(f.kind) << "\",\"msg\":\"" << jesc(f.msg) << "\",\"loc\":\"" << jesc(f.loc) << "\",\"func\":\"" << jesc(demangle(f.func)) << "\",\"inputs\":{";
            bool f2 = true; for (auto &kv : f.model) { if (!f2) o << ","; f2 = false; o << "\"" << jesc(kv.first) << "\":\"" << jesc(kv.second) << "\""; }
            o << "},\"stack\":[";
            f2 = true; for (auto &l : f.stack) { if (!f2) o << ","; f2 = false; o << "\"" << jesc(l) << "\""; }
            o << "]}";
        }
    }
    o << "],\n \"known_hits\":[";
    {
        bool first = true;
        for (auto &kv : ex.knownHits) {
            auto &f = kv.second;
            if (!first) o << ","; first = false;
            o << "\n  {\"id\":\"" << jesc(kv.first) << "\",\"kind\":\"" << jesc(f.kind) << "\",\"msg\":\"" << jesc(f.msg) << "\",\"loc\":\"" << jesc(f.loc) << "\",\"inputs\":{";
            bool f2 = true; for (auto &kv2 : f.model) { if (!f2) o << ","; f2 = false; o << "\"" << jesc(kv2.first) << "\":\"" << jesc(kv2.second) << "\""; }
            o << "}}";
        }
    }
    o << "]\n}\n";
    if (outPath.empty()) std::cout << o.str(); else { std::ofstream out(outPath); out << o.str(); }
    if (opt.profile) {
        std::vector<std::pair<double, std::string>> pv;
        for (auto &kv : ex.profile) pv.push_back({kv.second.second, kv.first + "  n=" + std::to_string(kv.second.first)});
        std::sort(pv.rbegin(), pv.rend());
        for (size_t i = 0; i < pv.size() && i < 40; i++) errs() << "  " << pv[i].first << "s  " << pv[i].second << "\n";
    }
    if (!fatal.empty()) errs() << "nixsym: " << fatal << "\n";
    if (ex.inconclusive) { errs() << "nixsym: INCONCLUSIVE: " << ex.inconclusiveWhy << "\n"; return 2; }
    if (!ex.failures.empty()) return 1;
    if (!missing.empty()) { errs() << "nixsym: VACUOUS: reach labels not hit\n"; return 3; }
    return 0;
}
