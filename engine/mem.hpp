// nixsym object memory: concrete bytes + whole-value symbolic cells, copy-on-write per object
#pragma once
#include "val.hpp"
#include <map>

struct Cell { Val v; uint32_t size; };  // symbolic scalar stored whole at an offset (size bytes)

struct MemObj {
    uint64_t base = 0, size = 0;
    std::vector<uint8_t> data;
    std::map<uint64_t, Cell> sym;   // offset -> cell; cells never overlap
    bool alive = true, ro = false;
    enum Kind : uint8_t { GLOBAL, STACK, HEAP, FUNC } kind = HEAP;
    uint8_t heapKind = 0;           // 0 malloc, 1 new, 2 new[]
    std::string name;
};
typedef std::shared_ptr<MemObj> ObjP;

struct Memory {
    std::map<uint64_t, ObjP> objs;  // keyed by base
    uint64_t next = 0x100000;
    uint64_t heapBytes = 0;

    ObjP alloc(uint64_t size, MemObj::Kind kind, const std::string &name, uint64_t align = 16) {
        auto o = std::make_shared<MemObj>();
        if (align < 16) align = 16;
        next = (next + align - 1) & ~(align - 1);
        o->base = next; o->size = size; o->data.assign(size, 0); o->kind = kind; o->name = name;
        next += size + 32;  // red zone
        objs[o->base] = o;
        return o;
    }
    // object containing addr (or one-past-end when allowEnd)
    MemObj *find(uint64_t addr) const {
        auto it = objs.upper_bound(addr);
        if (it == objs.begin()) return nullptr;
        --it;
        MemObj *o = it->second.get();
        if (addr >= o->base && addr <= o->base + o->size) return o;
        return nullptr;
    }
    MemObj *writable(MemObj *o) {
        auto it = objs.find(o->base);
        if (it->second.use_count() > 1) it->second = std::make_shared<MemObj>(*it->second);
        return it->second.get();
    }
    void erase(uint64_t base) { objs.erase(base); }
};

// ---- byte-level helpers on one object ----
static inline z3::expr cellByte(const Cell &c, unsigned idx) {
    z3::expr bv = toBV(c.v);
    return bv.extract(idx * 8 + 7, idx * 8);
}
// split any cell overlapping [off, off+n) but not fully inside into byte cells, then erase those inside
static inline void clearRange(MemObj *o, uint64_t off, uint64_t n) {
    if (o->sym.empty()) return;
    auto it = o->sym.lower_bound(off);
    if (it != o->sym.begin()) { auto p = std::prev(it); if (p->first + p->second.size > off) it = p; }
    std::vector<std::pair<uint64_t, Cell>> add;
    while (it != o->sym.end() && it->first < off + n) {
        uint64_t cs = it->first, ce = cs + it->second.size;
        if (cs < off || ce > off + n) {
            for (uint64_t b = cs; b < ce; b++) {
                if (b >= off && b < off + n) continue;
                Cell bc; bc.size = 1; bc.v = symFromBV(cellByte(it->second, (unsigned)(b - cs)), 8);
                if (bc.v.conc()) o->data[b] = (uint8_t)bc.v.lo; else add.push_back({b, bc});
            }
        }
        it = o->sym.erase(it);
    }
    for (auto &a : add) o->sym[a.first] = a.second;
}
static inline bool rangeHasSym(const MemObj *o, uint64_t off, uint64_t n) {
    if (o->sym.empty()) return false;
    auto it = o->sym.lower_bound(off);
    if (it != o->sym.begin()) { auto p = std::prev(it); if (p->first + p->second.size > off) return true; }
    return it != o->sym.end() && it->first < off + n;
}
// load scalar of `size` bytes; wantFP selects FP kind for result
static inline Val loadScalar(const MemObj *o, uint64_t off, unsigned size, unsigned bits, bool wantFP) {
    if (!rangeHasSym(o, off, size)) {
        uint64_t v = 0;
        memcpy(&v, o->data.data() + off, size > 8 ? 8 : size);
        if (wantFP) { Val r; r.k = Val::FP; r.bits = bits; r.lo = v & maskBits(bits); return r; }
        return mkInt(bits, v);
    }
    auto it = o->sym.find(off);
    if (it != o->sym.end() && it->second.size == size) {
        const Val &c = it->second.v;
        if (c.sym()) {
            if (wantFP && c.symfp && c.bits == bits) return c;
            if (!wantFP && !c.symfp && c.bits == bits) return c;
            if (wantFP && !c.symfp && c.bits == bits) return symFromFP(wrap(Z3_mk_fpa_to_fp_bv(*ZC, toBV(c), fpSort(bits))), bits);
            if (!wantFP && c.symfp && c.bits == bits) return symFromBV(toBV(c), bits);
            if (!wantFP && !c.symfp && bits < c.bits) return symFromBV(toBV(c).extract(bits - 1, 0), bits);
        }
    }
    // assemble bytewise (little endian)
    z3::expr acc(*ZC);
    bool first = true;
    for (unsigned b = 0; b < size; b++) {
        uint64_t p = off + b;
        z3::expr byte = ZC->bv_val((unsigned)o->data[p], 8);
        auto ci = o->sym.upper_bound(p);
        if (ci != o->sym.begin()) {
            --ci;
            if (ci->first + ci->second.size > p) byte = cellByte(ci->second, (unsigned)(p - ci->first));
        }
        if (first) { acc = byte; first = false; } else acc = z3::concat(byte, acc);
    }
    if (bits < size * 8) acc = acc.extract(bits - 1, 0);
    if (wantFP) return symFromFP(wrap(Z3_mk_fpa_to_fp_bv(*ZC, acc, fpSort(bits))), bits);
    return symFromBV(acc, bits);
}
static inline void storeScalar(MemObj *o, uint64_t off, unsigned size, const Val &v) {
    clearRange(o, off, size);
    if (v.k == Val::INT || v.k == Val::FP || v.k == Val::UNDEF) {
        uint64_t x = v.lo;
        memcpy(o->data.data() + off, &x, size > 8 ? 8 : size);
        if (size > 8) memset(o->data.data() + off + 8, 0, size - 8);
        return;
    }
    Cell c; c.size = size; c.v = v;
    if (v.sym() && !v.symfp && v.bits != size * 8) {
        // i1 or odd width: widen to full bytes
        z3::expr bv = toBV(v);
        c.v = mkSymInt(z3::zext(bv, size * 8 - v.bits), size * 8);
    }
    o->sym[off] = c;
}
static inline void copyRange(MemObj *dst, uint64_t doff, const MemObj *src, uint64_t soff, uint64_t n) {
    if (n == 0) return;
    if (dst == src && doff == soff) return;
    // gather source cells first (handles overlap)
    std::vector<uint8_t> tmp(src->data.begin() + soff, src->data.begin() + soff + n);
    std::vector<std::pair<uint64_t, Cell>> cells;
    if (!src->sym.empty()) {
        auto it = src->sym.lower_bound(soff);
        if (it != src->sym.begin()) { auto p = std::prev(it); if (p->first + p->second.size > soff) it = p; }
        for (; it != src->sym.end() && it->first < soff + n; ++it) {
            uint64_t cs = it->first, ce = cs + it->second.size;
            if (cs >= soff && ce <= soff + n) cells.push_back({cs - soff, it->second});
            else for (uint64_t b = std::max(cs, soff); b < std::min(ce, soff + n); b++) {
                Cell bc; bc.size = 1; bc.v = symFromBV(cellByte(it->second, (unsigned)(b - cs)), 8);
                if (bc.v.conc()) tmp[b - soff] = (uint8_t)bc.v.lo; else cells.push_back({b - soff, bc});
            }
        }
    }
    clearRange(dst, doff, n);
    memcpy(dst->data.data() + doff, tmp.data(), n);
    for (auto &c : cells) dst->sym[doff + c.first] = c.second;
}
