// nixsym value representation: concrete fast path + z3 terms
#pragma once
#include <z3++.h>
#include <cstdint>
#include <cstring>
#include <cmath>
#include <memory>
#include <vector>
#include <string>
#include <stdexcept>

extern z3::context *ZC;

struct EngineError : std::runtime_error {
    explicit EngineError(const std::string &s) : std::runtime_error(s) {}
};

struct Val;
typedef std::shared_ptr<std::vector<Val>> AggP;

struct Val {
    enum Kind : uint8_t { UNDEF, INT, FP, SYM, AGG };
    Kind k = UNDEF;
    bool symfp = false;   // SYM: expression has FP sort
    uint16_t bits = 0;    // INT/SYM-int: width (1..64); FP/SYM-fp: 32 or 64
    uint64_t lo = 0;      // INT value (masked) or FP bit pattern
    z3::expr e;           // SYM: bool sort if bits==1 && !symfp, bv sort otherwise, or fp sort
    AggP agg;
    Val() : e(*ZC) {}
    bool conc() const { return k == INT || k == FP; }
    bool sym() const { return k == SYM; }
    bool isFP() const { return k == FP || (k == SYM && symfp); }
};

static inline uint64_t maskBits(unsigned bits) { return bits >= 64 ? ~0ULL : ((1ULL << bits) - 1); }
static inline Val mkInt(unsigned bits, uint64_t v) {
    Val r; r.k = Val::INT; r.bits = bits; r.lo = v & maskBits(bits); return r;
}
static inline Val mkPtr(uint64_t v) { return mkInt(64, v); }
static inline Val mkF64(double d) { Val r; r.k = Val::FP; r.bits = 64; memcpy(&r.lo, &d, 8); return r; }
static inline Val mkF32(float f) { Val r; r.k = Val::FP; r.bits = 32; uint32_t u; memcpy(&u, &f, 4); r.lo = u; return r; }
static inline double asF64(const Val &v) { double d; memcpy(&d, &v.lo, 8); return d; }
static inline float asF32(const Val &v) { float f; uint32_t u = (uint32_t)v.lo; memcpy(&f, &u, 4); return f; }
static inline Val mkSymInt(const z3::expr &e, unsigned bits) { Val r; r.k = Val::SYM; r.bits = bits; r.symfp = false; r.e = e; return r; }
static inline Val mkSymFP(const z3::expr &e, unsigned bits) { Val r; r.k = Val::SYM; r.bits = bits; r.symfp = true; r.e = e; return r; }
static inline Val mkAgg(std::vector<Val> v) { Val r; r.k = Val::AGG; r.agg = std::make_shared<std::vector<Val>>(std::move(v)); return r; }
static inline int64_t sext64(uint64_t v, unsigned bits) {
    if (bits >= 64) return (int64_t)v;
    uint64_t m = 1ULL << (bits - 1);
    v &= maskBits(bits);
    return (int64_t)((v ^ m) - m);
}

static inline z3::sort fpSort(unsigned bits) { return bits == 64 ? ZC->fpa_sort(11, 53) : ZC->fpa_sort(8, 24); }
static inline z3::expr rne() { return z3::expr(*ZC, Z3_mk_fpa_rne(*ZC)); }
static inline z3::expr rtp() { return z3::expr(*ZC, Z3_mk_fpa_rtp(*ZC)); }
static inline z3::expr rtn() { return z3::expr(*ZC, Z3_mk_fpa_rtn(*ZC)); }
static inline z3::expr rtz() { return z3::expr(*ZC, Z3_mk_fpa_rtz(*ZC)); }
static inline z3::expr rna() { return z3::expr(*ZC, Z3_mk_fpa_rna(*ZC)); }
static inline z3::expr wrap(Z3_ast a) { z3::expr r(*ZC, a); ZC->check_error(); return r; }

// FP constant built from its bit pattern (exact, handles NaN/inf/-0)
static inline z3::expr fpConstBits(uint64_t bitsval, unsigned bits) {
    z3::expr bv = ZC->bv_val((uint64_t)bitsval, bits);
    return wrap(Z3_mk_fpa_to_fp_bv(*ZC, bv, fpSort(bits))).simplify();
}

// bool-sorted expr for an i1
static inline z3::expr toBool(const Val &v) {
    if (v.k == Val::INT) return ZC->bool_val(v.lo & 1);
    if (v.k == Val::UNDEF) return ZC->bool_val(false);
    if (v.k == Val::SYM && !v.symfp && v.bits == 1) return v.e;
    throw EngineError("toBool on non-i1 value");
}
// bit-vector expr for any scalar
static inline z3::expr toBV(const Val &v) {
    switch (v.k) {
    case Val::UNDEF: return ZC->bv_val(0, v.bits ? v.bits : 64);
    case Val::INT: return ZC->bv_val((uint64_t)v.lo, v.bits);
    case Val::FP: return ZC->bv_val((uint64_t)v.lo, v.bits);
    case Val::SYM:
        if (v.symfp) return wrap(Z3_mk_fpa_to_ieee_bv(*ZC, v.e));
        if (v.bits == 1) return z3::ite(v.e, ZC->bv_val(1, 1), ZC->bv_val(0, 1));
        return v.e;
    default: throw EngineError("toBV on aggregate");
    }
}
static inline z3::expr toFPx(const Val &v) {
    if (v.k == Val::FP) return fpConstBits(v.lo, v.bits);
    if (v.k == Val::SYM && v.symfp) return v.e;
    if (v.k == Val::UNDEF) return fpConstBits(0, v.bits ? v.bits : 64);
    throw EngineError("toFPx on non-FP value");
}
// sym int from bv expr of width bits (bits==1 -> bool)
static inline Val symFromBV(const z3::expr &bv, unsigned bits) {
    z3::expr s = bv.simplify();
    if (s.is_numeral()) { uint64_t u = 0; if (bits <= 64 && s.is_numeral_u64(u)) return mkInt(bits, u); }
    if (bits == 1) return mkSymInt((s == ZC->bv_val(1, 1)).simplify(), 1);
    return mkSymInt(s, bits);
}
static inline Val symFromBool(const z3::expr &b) {
    z3::expr s = b.simplify();
    if (s.is_true()) return mkInt(1, 1);
    if (s.is_false()) return mkInt(1, 0);
    return mkSymInt(s, 1);
}
static inline bool fpNumeralBits(const z3::expr &s, unsigned bits, uint64_t &out) {
    // try to recognise an FP numeral
    if (!s.is_app()) return false;
    Z3_decl_kind dk = s.decl().decl_kind();
    if (dk == Z3_OP_FPA_NUM || dk == Z3_OP_FPA_PLUS_INF || dk == Z3_OP_FPA_MINUS_INF || dk == Z3_OP_FPA_NAN ||
        dk == Z3_OP_FPA_PLUS_ZERO || dk == Z3_OP_FPA_MINUS_ZERO) {
        z3::expr bv = wrap(Z3_mk_fpa_to_ieee_bv(*ZC, s)).simplify();
        if (bv.is_numeral() && bv.is_numeral_u64(out)) return true;
    }
    return false;
}
static inline Val symFromFP(const z3::expr &f, unsigned bits, bool simp = true) {
    if (simp) {
        z3::expr s = f.simplify();
        uint64_t u;
        if (fpNumeralBits(s, bits, u)) { Val r; r.k = Val::FP; r.bits = bits; r.lo = u; return r; }
        return mkSymFP(s, bits);
    }
    return mkSymFP(f, bits);
}
