// nixsym executor declarations
#pragma once
#include "mem.hpp"
#include <llvm/IR/Module.h>
#include <llvm/IR/Function.h>
#include <llvm/IR/Instructions.h>
#include <llvm/IR/IntrinsicInst.h>
#include <llvm/IR/Constants.h>
#include <llvm/IR/DataLayout.h>
#include <llvm/IR/Operator.h>
#include <llvm/IR/DebugLoc.h>
#include <llvm/IR/DebugInfoMetadata.h>
#include <llvm/ADT/DenseMap.h>
#include <set>
#include <unordered_map>
#include <functional>
#include <chrono>

using llvm::Function; using llvm::BasicBlock; using llvm::Instruction; using llvm::Value; using llvm::Type;

struct FuncInfo {
    llvm::DenseMap<const Value *, unsigned> idx;
    unsigned n = 0;
};

struct Frame {
    Function *fn = nullptr;
    FuncInfo *fi = nullptr;
    BasicBlock *bb = nullptr, *prev = nullptr;
    BasicBlock::iterator pc;
    std::vector<Val> regs;
    std::vector<uint64_t> allocas;
    std::vector<Val> varargs;
};

struct ExcRec { uint64_t obj = 0; uint64_t ti = 0; uint64_t dtor = 0; };

struct SymInput { std::string name; Val v; };

struct State {
    int id = 0;
    std::vector<Frame> stack;
    Memory mem;
    std::vector<z3::expr> pc;
    bool pcHasFP = false;
    std::vector<SymInput> inputs;
    std::map<std::string, int> nameCount;
    ExcRec inflight; bool unwinding = false;
    std::vector<ExcRec> caught;
    std::set<std::string> reached;
    std::vector<std::string> trace;     // nixsym_trace_* lines
    std::vector<std::string> choices;   // description of choice decisions
    uint64_t insns = 0;
    uint64_t timeCtr = 0;
    bool assertedSomething = false; bool assertedAny = false;
    std::vector<std::pair<std::string, z3::expr>> known;
    std::unordered_map<unsigned, bool> fact;   // conditions already decided on this path (expr id -> value); monotone because the PC only grows   // known-finding predicates declared by the harness on this path
};
typedef std::unique_ptr<State> StateP;

struct Failure {
    std::string kind;      // assert | memory | ub | uncaught | unreachable | engine
    std::string msg;
    std::string loc;
    std::string func;
    std::vector<std::pair<std::string, std::string>> model;  // input name -> value (hex for ints, hexfloat+bits for fp)
    std::vector<std::string> choices;
    std::vector<std::string> stack;
    bool knownFinding = false; std::string findingId;
};

struct Options {
    std::string entry;
    uint64_t maxPaths = 200000, maxInsnsPerPath = 50000000, maxForkDepth = 100000;
    double timeoutS = 3600;
    unsigned branchTimeoutMs = 5000, assertTimeoutMs = 120000;
    bool concrete = false;
    std::map<std::string, std::vector<std::string>> concreteInputs;
    bool verbose = false;
    bool stopOnFirst = false;
    uint64_t maxSymObj = 1 << 16;
    std::string kissat = "";
    int dedupFailures = 1;
    bool noSlice = false;
    bool symbolicEntropy = false;
    std::string dumpDir; bool dumpAll = false;
    bool profile = false;
    std::map<std::string, uint64_t> fixedChoice;   // --fix name=value: nixsym_choice(name, n) returns value without forking
    std::set<std::string> knownIds;
    std::set<std::string> noReplace;   // substrings of function names whose __vrt__ replacement is disabled   // ids with status 'known' in known_findings.json
};

class Executor {
public:
    llvm::Module *M; const llvm::DataLayout *DL; Options opt;
    std::unordered_map<const Function *, std::unique_ptr<FuncInfo>> finfo;
    std::unordered_map<const llvm::GlobalValue *, uint64_t> gaddr;
    std::unordered_map<uint64_t, Function *> faddr;
    std::map<uint64_t, const llvm::GlobalVariable *> tiByAddr;
    std::unordered_map<const Function *, Function *> redirect;   // __vrt__ replacements
    std::set<std::string> redirectUsed; std::set<std::string> noReplace;
    std::vector<StateP> work;
    std::vector<Failure> failures;
    std::set<std::string> failureKeys;
    std::set<const Function *> covered;
    std::map<std::string, uint64_t> reachCount;
    std::set<std::string> declaredReach;
    std::map<std::string, uint64_t> nativeUse;
    std::map<std::string, Failure> knownHits;
    uint64_t pathsDone = 0, pathsKilledAssume = 0, pathsError = 0, pathsBudget = 0, forks = 0, totalInsns = 0;
    uint64_t qCached = 0; uint64_t poisonUsed = 0;
    uint64_t qHeavy = 0; double slowestQ = 0; uint64_t qRetry = 0; uint64_t stratWins[3] = {0, 0, 0}; uint64_t extWins[2] = {0, 0};
    std::map<std::string, std::pair<uint64_t, double>> profile;
    uint64_t qTotal = 0, qSat = 0, qUnsat = 0, qUnknown = 0; double solverS = 0;
    uint64_t assertsChecked = 0, assertsSymbolic = 0, pathsWithSymAssert = 0, pathsWithAssert = 0;
    std::vector<std::string> samplePaths;
    std::vector<std::vector<std::string>> concreteTraces;
    std::vector<std::vector<std::string>> pathTraces;
    bool inconclusive = false; std::string inconclusiveWhy;
    int nextStateId = 1;
    std::chrono::steady_clock::time_point t0;
    // solver
    z3::solver *solver = nullptr;
    std::vector<unsigned> solverStackIds;

    Executor(llvm::Module *m, const Options &o);
    void initGlobals(State &s);
    void run();
    // core
    void runState(StateP s);
    bool step(State &s);   // returns false when the path ended
    FuncInfo *getInfo(Function *f);
    Val eval(State &s, const Value *v);
    Val evalConst(State &s, const llvm::Constant *c);
    void setReg(State &s, const Value *v, const Val &x);
    void pushFrame(State &s, Function *f, const std::vector<Val> &args);
    void popFrame(State &s);
    void enterBlock(State &s, BasicBlock *to);
    bool doCall(State &s, llvm::CallBase *cb);   // false if path ended
    void returnFromCall(State &s, const Val &rv, bool hasVal);
    bool raise(State &s, bool popFirst);       // unwinding; false if path ended
    bool native(State &s, llvm::CallBase *cb, Function *f, std::vector<Val> &args, Val &ret, bool &handled, bool &ended);
    // memory access
    bool resolve(State &s, const Val &addr, unsigned size, bool write, const Instruction *at, MemObj *&obj, uint64_t &off, z3::expr *symOff);
    bool loadVal(State &s, const Val &addr, Type *ty, const Instruction *at, Val &out);
    bool storeVal(State &s, const Val &addr, Type *ty, const Val &v, const Instruction *at);
    Val loadTyped(State &s, MemObj *o, uint64_t off, Type *ty);
    void storeTyped(State &s, MemObj *o, uint64_t off, Type *ty, const Val &v);
    bool memCopy(State &s, const Val &d, const Val &sr, const Val &n, const Instruction *at, bool move);
    bool memSet(State &s, const Val &d, const Val &c, const Val &n, const Instruction *at);
    uint64_t mallocObj(State &s, uint64_t size, int heapKind, const std::string &name);
    bool freeObj(State &s, const Val &p, int heapKind, const Instruction *at);
    std::string readCString(State &s, uint64_t addr, size_t max = 4096);
    bool concretize(State &s, Val &v, const Instruction *at, const char *what, unsigned maxVals = 64);
    // solver
    z3::check_result check(State &s, const z3::expr &extra, unsigned timeoutMs, z3::model *outModel = nullptr);
    z3::check_result parallelCheck(const z3::expr &f, unsigned timeoutMs, z3::model *outModel);
    bool mayBeTrue(State &s, const z3::expr &c, bool &unknown);
    void addPC(State &s, const z3::expr &c);
    StateP fork(State &s);
    // branch on bool cond: returns states (true side uses s itself if feasible)
    void branchOn(State &s, const z3::expr &c, bool &canT, bool &canF);
    // reporting
    void fail(State &s, const std::string &kind, const std::string &msg, const Instruction *at, const z3::expr *extra);
    // returns true if the bad condition is feasible at all (new or known)
    bool report(State &s, const std::string &kind, const std::string &msg, const Instruction *at, const z3::expr &bad, bool hard);
    std::string locOf(const Instruction *at);
    void fillModel(State &s, Failure &f, z3::model *m);
    void endPath(State &s, const char *how);
    // ops (ops.cpp)
    Val binop(State &s, unsigned opc, const Val &a, const Val &b, const Instruction *at, bool &ok);
    Val icmp(unsigned pred, const Val &a, const Val &b);
    Val fcmp(unsigned pred, const Val &a, const Val &b);
    Val castop(State &s, unsigned opc, const Val &a, Type *from, Type *to, const Instruction *at, bool &ok);
    Val fpUnary(const char *name, const Val &a);
    // C++ rtti helpers
    struct BaseInfo { uint64_t ti; int64_t offset; bool isVirtual; bool isPublic; };
    std::map<uint64_t, std::vector<BaseInfo>> bases;
    void parseTypeInfos();
    bool isSubtype(uint64_t thrown, uint64_t caught, int depth = 0);
    uint64_t typeIdFor(uint64_t tiAddr);
    bool dynCast(State &s, uint64_t ptr, uint64_t srcTi, uint64_t dstTi, uint64_t &out, const Instruction *at);
    double elapsed() const;
};
