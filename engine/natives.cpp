// nixsym: natively modelled functions (C/C++ runtime, LLVM intrinsics, harness intrinsics)
#include "exec.hpp"
#include <llvm/Support/raw_ostream.h>
#include <sstream>
using namespace llvm;

static Val freshSym(State &s, const std::string &name, unsigned bits, bool fp) {
    int n = s.nameCount[name]++;
    std::string nm = name + "#" + std::to_string(n);
    Val v;
    if (fp) v = mkSymFP(ZC->constant(nm.c_str(), fpSort(bits)), bits);
    else if (bits == 1) v = mkSymInt(ZC->bool_const(nm.c_str()), 1);
    else v = mkSymInt(ZC->bv_const(nm.c_str(), bits), bits);
    s.inputs.push_back({nm, v});
    return v;
}
static bool parseConcrete(const std::string &t, unsigned bits, bool fp, Val &out) {
    // formats: i<bits>:<dec>  |  f64:<hexfloat>:0x<bits> | plain number
    std::string v = t;
    size_t c = v.find(':');
    if (c != std::string::npos) {
        std::string rest = v.substr(c + 1);
        size_t c2 = rest.rfind(":0x");
        if (fp && c2 != std::string::npos) { uint64_t u = strtoull(rest.c_str() + c2 + 3, nullptr, 16); out.k = Val::FP; out.bits = bits; out.lo = u; return true; }
        v = rest;
    }
    if (fp) { double d = strtod(v.c_str(), nullptr); out = bits == 64 ? mkF64(d) : mkF32((float)d); return true; }
    out = mkInt(bits, strtoull(v.c_str(), nullptr, 0));
    return true;
}

bool Executor::native(State &s, CallBase *cb, Function *f, std::vector<Val> &a, Val &ret, bool &handled, bool &ended) {
    handled = true; ended = false;
    StringRef n = f->getName();
    auto retInt = [&](uint64_t v) { Type *t = cb->getType(); ret = t->isPointerTy() ? mkPtr(v) : mkInt(t->isIntegerTy() ? t->getIntegerBitWidth() : 64, v); };

    // ---------- LLVM intrinsics ----------
    if (f->isIntrinsic()) {
        switch (f->getIntrinsicID()) {
        case Intrinsic::lifetime_start: case Intrinsic::lifetime_end: case Intrinsic::dbg_declare: case Intrinsic::dbg_value:
        case Intrinsic::dbg_label: case Intrinsic::experimental_noalias_scope_decl: case Intrinsic::invariant_end:
        case Intrinsic::donothing: case Intrinsic::var_annotation: case Intrinsic::prefetch: case Intrinsic::vaend:
            return true;
        case Intrinsic::invariant_start: ret = mkPtr(0); return true;
        case Intrinsic::assume: {
            Val c = a[0];
            if (c.sym()) addPC(s, toBool(c));
            return true;
        }
        case Intrinsic::expect: case Intrinsic::expect_with_probability: ret = a[0]; return true;
        case Intrinsic::launder_invariant_group: case Intrinsic::strip_invariant_group: case Intrinsic::ptr_annotation: ret = a[0]; return true;
        case Intrinsic::is_constant: ret = mkInt(1, 0); return true;
        case Intrinsic::objectsize: ret = mkInt(cb->getType()->getIntegerBitWidth(), (a[1].lo & 1) ? 0 : ~0ULL); return true;
        case Intrinsic::memcpy: case Intrinsic::memcpy_inline: if (!memCopy(s, a[0], a[1], a[2], cb, false)) { ended = true; return false; } return true;
        case Intrinsic::memmove: if (!memCopy(s, a[0], a[1], a[2], cb, true)) { ended = true; return false; } return true;
        case Intrinsic::memset: if (!memSet(s, a[0], a[1], a[2], cb)) { ended = true; return false; } return true;
        case Intrinsic::trap: fail(s, "ub", "llvm.trap executed (abort/__builtin_trap)", cb, nullptr); ended = true; return false;
        case Intrinsic::eh_typeid_for: ret = mkInt(32, typeIdFor(a[0].lo)); return true;
        case Intrinsic::load_relative: {
            // ptr + sext(*(i32*)(ptr + offset))
            Val p = a[0], off = a[1];
            if (p.k != Val::INT || off.k != Val::INT) throw EngineError("llvm.load.relative with symbolic operands");
            Val w;
            if (!loadVal(s, mkPtr(p.lo + off.lo), Type::getInt32Ty(M->getContext()), cb, w)) { ended = true; return false; }
            if (w.k != Val::INT) throw EngineError("llvm.load.relative: symbolic table entry");
            ret = mkPtr(p.lo + (uint64_t)(int64_t)(int32_t)(uint32_t)w.lo); return true;
        }
        case Intrinsic::stacksave: ret = mkPtr(0); return true;
        case Intrinsic::stackrestore: return true;
        case Intrinsic::fabs: ret = fpUnary("fabs", a[0]); return true;
        case Intrinsic::floor: ret = fpUnary("floor", a[0]); return true;
        case Intrinsic::ceil: ret = fpUnary("ceil", a[0]); return true;
        case Intrinsic::round: ret = fpUnary("round", a[0]); return true;
        case Intrinsic::trunc: ret = fpUnary("trunc", a[0]); return true;
        case Intrinsic::rint: ret = fpUnary("rint", a[0]); return true;
        case Intrinsic::nearbyint: ret = fpUnary("nearbyint", a[0]); return true;
        case Intrinsic::sqrt: ret = fpUnary("sqrt", a[0]); return true;
        case Intrinsic::fmuladd: case Intrinsic::fma: {
            if (a[0].k == Val::FP && a[1].k == Val::FP && a[2].k == Val::FP && a[0].bits == 64) { ret = mkF64(fma(asF64(a[0]), asF64(a[1]), asF64(a[2]))); return true; }
            ret = mkSymFP(wrap(Z3_mk_fpa_fma(*ZC, rne(), toFPx(a[0]), toFPx(a[1]), toFPx(a[2]))), a[0].bits); return true;
        }
        case Intrinsic::umul_with_overflow: case Intrinsic::uadd_with_overflow: case Intrinsic::usub_with_overflow:
        case Intrinsic::smul_with_overflow: case Intrinsic::sadd_with_overflow: case Intrinsic::ssub_with_overflow: {
            unsigned bits = a[0].bits; Intrinsic::ID id = f->getIntrinsicID();
            bool sg = id == Intrinsic::smul_with_overflow || id == Intrinsic::sadd_with_overflow || id == Intrinsic::ssub_with_overflow;
            unsigned opc = (id == Intrinsic::umul_with_overflow || id == Intrinsic::smul_with_overflow) ? Instruction::Mul
                         : (id == Intrinsic::uadd_with_overflow || id == Intrinsic::sadd_with_overflow) ? Instruction::Add : Instruction::Sub;
            if (a[0].k == Val::INT && a[1].k == Val::INT) {
                __int128 x = sg ? (__int128)sext64(a[0].lo, bits) : (__int128)(unsigned __int128)a[0].lo;
                __int128 y = sg ? (__int128)sext64(a[1].lo, bits) : (__int128)(unsigned __int128)a[1].lo;
                __int128 r = opc == Instruction::Mul ? x * y : (opc == Instruction::Add ? x + y : x - y);
                bool ov;
                if (sg) { __int128 mn = -((__int128)1 << (bits - 1)), mx = ((__int128)1 << (bits - 1)) - 1; ov = r < mn || r > mx; }
                else ov = r < 0 || r > (__int128)(unsigned __int128)maskBits(bits);
                ret = mkAgg({mkInt(bits, (uint64_t)r), mkInt(1, ov)});
                return true;
            }
            z3::expr x = toBV(a[0]), y = toBV(a[1]);
            unsigned w = bits * 2;
            z3::expr xe = sg ? z3::sext(x, bits) : z3::zext(x, bits), ye = sg ? z3::sext(y, bits) : z3::zext(y, bits);
            z3::expr re = opc == Instruction::Mul ? xe * ye : (opc == Instruction::Add ? xe + ye : xe - ye);
            z3::expr lo = re.extract(bits - 1, 0);
            z3::expr ov = sg ? (z3::sext(lo, bits) != re) : (z3::zext(lo, bits) != re);
            (void)w;
            ret = mkAgg({symFromBV(lo, bits), symFromBool(ov)});
            return true;
        }
        case Intrinsic::umax: case Intrinsic::umin: case Intrinsic::smax: case Intrinsic::smin: {
            Intrinsic::ID id = f->getIntrinsicID();
            unsigned pred = id == Intrinsic::umax ? CmpInst::ICMP_UGT : id == Intrinsic::umin ? CmpInst::ICMP_ULT : id == Intrinsic::smax ? CmpInst::ICMP_SGT : CmpInst::ICMP_SLT;
            Val c = icmp(pred, a[0], a[1]);
            if (c.k == Val::INT) ret = c.lo ? a[0] : a[1];
            else ret = symFromBV(z3::ite(toBool(c), toBV(a[0]), toBV(a[1])), a[0].bits);
            return true;
        }
        case Intrinsic::abs: {
            unsigned bits = a[0].bits;
            if (a[0].k == Val::INT) { int64_t x = sext64(a[0].lo, bits); ret = mkInt(bits, (uint64_t)(x < 0 ? -x : x)); }
            else { z3::expr x = toBV(a[0]); ret = symFromBV(z3::ite(x < ZC->bv_val(0, bits), -x, x), bits); }
            return true;
        }
        case Intrinsic::usub_sat: {
            unsigned bits = a[0].bits;
            if (a[0].k == Val::INT && a[1].k == Val::INT) ret = mkInt(bits, a[0].lo > a[1].lo ? a[0].lo - a[1].lo : 0);
            else { z3::expr x = toBV(a[0]), y = toBV(a[1]); ret = symFromBV(z3::ite(z3::ugt(x, y), x - y, ZC->bv_val(0, bits)), bits); }
            return true;
        }
        case Intrinsic::uadd_sat: {
            unsigned bits = a[0].bits;
            if (a[0].k == Val::INT && a[1].k == Val::INT) { uint64_t r = (a[0].lo + a[1].lo) & maskBits(bits); ret = mkInt(bits, r < a[0].lo ? maskBits(bits) : r); }
            else { z3::expr x = toBV(a[0]), y = toBV(a[1]); ret = symFromBV(z3::ite(z3::ult(x + y, x), ZC->bv_val((uint64_t)maskBits(bits), bits), x + y), bits); }
            return true;
        }
        case Intrinsic::ctlz: case Intrinsic::cttz: case Intrinsic::ctpop: case Intrinsic::bswap: {
            Val x = a[0];
            if (!concretize(s, x, cb, "bit-count operand", 70)) { ended = true; return false; }
            unsigned bits = x.bits; uint64_t v = x.lo, r = 0;
            switch (f->getIntrinsicID()) {
            case Intrinsic::ctlz: r = bits; for (unsigned i = 0; i < bits; i++) if (v >> (bits - 1 - i) & 1) { r = i; break; } break;
            case Intrinsic::cttz: r = bits; for (unsigned i = 0; i < bits; i++) if (v >> i & 1) { r = i; break; } break;
            case Intrinsic::ctpop: r = __builtin_popcountll(v); break;
            default: for (unsigned i = 0; i < bits / 8; i++) r |= ((v >> (8 * i)) & 0xff) << (bits - 8 - 8 * i); break;
            }
            ret = mkInt(bits, r); return true;
        }
        case Intrinsic::fshl: case Intrinsic::fshr: {
            if (a[0].k != Val::INT || a[1].k != Val::INT || a[2].k != Val::INT) throw EngineError("symbolic funnel shift");
            unsigned bits = a[0].bits; unsigned sh = a[2].lo % bits;
            unsigned __int128 c = ((unsigned __int128)a[0].lo << bits) | a[1].lo;
            uint64_t r = f->getIntrinsicID() == Intrinsic::fshl ? (uint64_t)((c << sh) >> bits) : (uint64_t)(c >> sh);
            ret = mkInt(bits, r); return true;
        }
        case Intrinsic::vastart: case Intrinsic::vacopy: throw EngineError("varargs access unsupported in " + s.stack.back().fn->getName().str());
        default: throw EngineError("unsupported intrinsic " + n.str());
        }
    }

    // ---------- harness intrinsics ----------
    if (n.startswith("nixsym_")) {
        nativeUse[n.str()]++;
        auto nameArg = [&](unsigned i) { return readCString(s, a[i].lo); };
        auto symIn = [&](unsigned bits, bool fp) {
            std::string nm = nameArg(0);
            if (opt.concrete) {
                int k = s.nameCount[nm]++;
                std::string key = nm + "#" + std::to_string(k);
                auto it = opt.concreteInputs.find(key);
                Val v = fp ? (bits == 64 ? mkF64(0) : mkF32(0)) : mkInt(bits, 0);
                if (it != opt.concreteInputs.end() && !it->second.empty()) parseConcrete(it->second[0], bits, fp, v);
                s.inputs.push_back({key, v});
                ret = v;
            } else ret = freshSym(s, nm, bits, fp);
        };
        if (n == "nixsym_u8") { symIn(8, false); return true; }
        if (n == "nixsym_u16") { symIn(16, false); return true; }
        if (n == "nixsym_u32" || n == "nixsym_i32") { symIn(32, false); return true; }
        if (n == "nixsym_u64" || n == "nixsym_i64") { symIn(64, false); return true; }
        if (n == "nixsym_bool") { symIn(8, false); if (ret.sym()) addPC(s, z3::ule(ret.e, ZC->bv_val(1, 8))); return true; }
        if (n == "nixsym_f64") { symIn(64, true); return true; }
        if (n == "nixsym_f32") { symIn(32, true); return true; }
        if (n == "nixsym_bytes") {
            // (ptr, n, name): fill memory with fresh symbolic bytes
            std::string nm = readCString(s, a[2].lo);
            for (uint64_t i = 0; i < a[1].lo; i++) {
                Val b;
                if (opt.concrete) {
                    int k = s.nameCount[nm]++; std::string key = nm + "#" + std::to_string(k);
                    auto it = opt.concreteInputs.find(key); b = mkInt(8, 0);
                    if (it != opt.concreteInputs.end()) parseConcrete(it->second[0], 8, false, b);
                    s.inputs.push_back({key, b});
                } else b = freshSym(s, nm, 8, false);
                if (!storeVal(s, mkPtr(a[0].lo + i), Type::getInt8Ty(M->getContext()), b, cb)) { ended = true; return false; }
            }
            return true;
        }
        if (n == "nixsym_choice") {
            // (name, n) -> concrete value in [0,n): forks eagerly
            std::string nm = nameArg(0);
            uint64_t cnt = a[1].lo;
            if (cnt == 0) { ended = true; return false; }
            if (opt.concrete) {
                int k = s.nameCount[nm]++; std::string key = nm + "#" + std::to_string(k);
                Val v = mkInt(32, 0);
                auto it = opt.concreteInputs.find(key);
                if (it != opt.concreteInputs.end()) parseConcrete(it->second[0], 32, false, v);
                s.inputs.push_back({key, v}); ret = v; return true;
            }
            int k = s.nameCount[nm]++; std::string key = nm + "#" + std::to_string(k);
            { auto fx = opt.fixedChoice.find(key); if (fx == opt.fixedChoice.end()) fx = opt.fixedChoice.find(nm); if (fx != opt.fixedChoice.end()) {
                if (fx->second >= cnt) { pathsKilledAssume++; ended = true; return false; }
                s.inputs.push_back({key, mkInt(32, fx->second)}); s.choices.push_back(key + "=" + std::to_string(fx->second)); ret = mkInt(32, fx->second); return true; } }
            for (uint64_t i = cnt; i-- > 1;) {
                StateP o = fork(s);
                o->inputs.push_back({key, mkInt(32, i)});
                o->choices.push_back(key + "=" + std::to_string(i));
                State *op = o.get();
                returnFromCall(*op, mkInt(32, i), true);
                work.push_back(std::move(o));
            }
            s.inputs.push_back({key, mkInt(32, 0)});
            s.choices.push_back(key + "=0");
            ret = mkInt(32, 0);
            return true;
        }
        if (n == "nixsym_assume") {
            Val c = a[0];
            if (c.k == Val::INT || c.k == Val::UNDEF) { if (!(c.lo & 1) && c.bits == 1) { pathsKilledAssume++; ended = true; return false; } if (c.bits != 1 && !c.lo) { pathsKilledAssume++; ended = true; return false; } return true; }
            z3::expr ce = c.bits == 1 ? toBool(c) : (toBV(c) != ZC->bv_val(0, c.bits));
            bool unk; if (!mayBeTrue(s, ce, unk)) { pathsKilledAssume++; ended = true; return false; }
            addPC(s, ce);
            return true;
        }
        if (n == "nixsym_assert") {
            Val c = a[0];
            std::string msg = a.size() > 1 ? readCString(s, a[1].lo) : "";
            assertsChecked++; s.assertedAny = true;
            if (c.k == Val::INT || c.k == Val::UNDEF) {
                bool v = c.bits == 1 ? (c.lo & 1) : c.lo != 0;
                if (!v) fail(s, "assert", msg, cb, nullptr);
                return true;
            }
            assertsSymbolic++; s.assertedSomething = true;
            z3::expr ce = c.bits == 1 ? toBool(c) : (toBV(c) != ZC->bv_val(0, c.bits));
            if (report(s, "assert", msg, cb, !ce, true)) {
                bool unk; if (!mayBeTrue(s, ce, unk)) { ended = true; return false; }
            }
            addPC(s, ce);
            return true;
        }
        if (n == "nixsym_reach") { std::string l = nameArg(0); s.reached.insert(l); return true; }
        if (n == "nixsym_declare_reach") { declaredReach.insert(nameArg(0)); return true; }
        if (n == "nixsym_unreached") { fail(s, "assert", "harness stub reached: " + nameArg(0), cb, nullptr); ended = true; return false; }
        if (n == "nixsym_is_symbolic") { ret = mkInt(32, a[0].sym() ? 1 : 0); return true; }
        if (n == "nixsym_trace_u64") { std::ostringstream o; o << nameArg(0) << "=" << (a[1].k == Val::INT ? std::to_string(a[1].lo) : "<sym>"); s.trace.push_back(o.str()); return true; }
        if (n == "nixsym_trace_f64") { std::ostringstream o; char b[64]; snprintf(b, sizeof b, "%a", a[1].k == Val::FP ? asF64(a[1]) : 0.0); o << nameArg(0) << "=" << (a[1].k == Val::FP ? b : "<sym>"); s.trace.push_back(o.str()); return true; }
        if (n == "nixsym_trace_str") { s.trace.push_back(nameArg(0) + "=" + readCString(s, a[1].lo)); return true; }
        if (n == "nixsym_finding") {
            // (id, cond): the harness states the predicate of a known finding over its symbolic inputs
            Val c = a[1];
            z3::expr ce = (c.k == Val::INT || c.k == Val::UNDEF) ? ZC->bool_val(c.bits == 1 ? (c.lo & 1) : c.lo != 0)
                                                                  : (c.bits == 1 ? toBool(c) : (toBV(c) != ZC->bv_val(0, c.bits)));
            s.known.push_back({nameArg(0), ce});
            return true;
        }
        if (n == "nixsym_print") { if (opt.verbose) errs() << "[harness] " << nameArg(0) << "\n"; return true; }
        if (n == "nixsym_count_values") {
            // (v, max): number of feasible values of v on this path, capped at max; nothing is added to the path condition
            Val v = a[0]; uint64_t mx = a[1].lo;
            if (v.k == Val::INT || v.k == Val::UNDEF) { ret = mkInt(32, 1); return true; }
            z3::expr e = v.bits == 1 ? z3::ite(toBool(v), ZC->bv_val(1, 1), ZC->bv_val(0, 1)) : toBV(v);
            z3::expr excl = ZC->bool_val(true); uint64_t cnt = 0;
            while (cnt < mx) {
                z3::model m(*ZC);
                z3::check_result r = check(s, excl, opt.assertTimeoutMs, &m);
                if (r == z3::unsat) break;
                uint64_t x = 0;
                if (r != z3::sat || !m.eval(e, true).is_numeral_u64(x)) { inconclusive = true; inconclusiveWhy = "solver gave no verdict while counting the values of a term"; break; }
                cnt++; excl = excl && (e != ZC->bv_val((uint64_t)x, v.bits == 1 ? 1 : v.bits));
            }
            ret = mkInt(32, cnt); return true;
        }
        if (n == "nixsym_concretize_u64") {
            Val v = a[1]; if (!concretize(s, v, cb, "harness value", (unsigned)a[2].lo)) { ended = true; return false; }
            ret = v; return true;
        }
        throw EngineError("unknown harness intrinsic " + n.str());
    }

    // ---------- allocation ----------
    if (n == "malloc" || n == "_Znwm" || n == "_Znam" || n == "calloc" || n == "_ZnwmRKSt9nothrow_t" || n == "_ZnamRKSt9nothrow_t") {
        nativeUse[n.str()]++;
        Val sz = a[0];
        if (n == "calloc") { bool ok; sz = binop(s, Instruction::Mul, a[0], a[1], cb, ok); }
        if (sz.sym()) {
            // allocation size must be bounded: report if it can be absurd (integer overflow leading to wrong allocation)
            z3::expr big = z3::ugt(toBV(sz), ZC->bv_val((uint64_t)1 << 32, 64));
            bool unk; if (mayBeTrue(s, big, unk)) { fail(s, "memory", "allocation size can exceed 4 GiB (unbounded or overflowed size)", cb, &big); addPC(s, !big); }
            if (!concretize(s, sz, cb, "allocation size", 128)) { ended = true; return false; }
        }
        if (sz.lo > (1ULL << 32)) { fail(s, "memory", "allocation of " + std::to_string(sz.lo) + " bytes (overflowed size?)", cb, nullptr); ended = true; return false; }
        int hk = n == "_Znwm" ? 1 : n == "_Znam" ? 2 : 0;
        uint64_t p = mallocObj(s, sz.lo, hk, (hk ? "new@" : "malloc@") + s.stack.back().fn->getName().str());
        if (n == "calloc") { MemObj *o = s.mem.find(p); memset(o->data.data(), 0, o->size); }
        ret = mkPtr(p); return true;
    }
    if (n == "free" || n == "_ZdlPv" || n == "_ZdaPv" || n == "_ZdlPvm" || n == "_ZdaPvm" || n == "_ZdlPvSt11align_val_t") {
        nativeUse[n.str()]++;
        if (!freeObj(s, a[0], 0, cb)) { ended = true; return false; }
        return true;
    }
    if (n == "realloc") {
        Val sz = a[1]; if (!concretize(s, sz, cb, "realloc size")) { ended = true; return false; }
        uint64_t p = mallocObj(s, sz.lo, 0, "realloc@" + s.stack.back().fn->getName().str());
        if (a[0].lo) {
            MemObj *o = s.mem.find(a[0].lo);
            if (!o || !o->alive || o->base != a[0].lo) { fail(s, "memory", "realloc of invalid pointer", cb, nullptr); ended = true; return false; }
            uint64_t c = std::min<uint64_t>(o->size, sz.lo);
            if (!memCopy(s, mkPtr(p), a[0], mkInt(64, c), cb, false)) { ended = true; return false; }
            if (!freeObj(s, a[0], 0, cb)) { ended = true; return false; }
        }
        ret = mkPtr(p); return true;
    }
    if (n == "memcpy" || n == "memmove") { if (!memCopy(s, a[0], a[1], a[2], cb, n == "memmove")) { ended = true; return false; } ret = a[0]; return true; }
    if (n == "memset") { if (!memSet(s, a[0], a[1], a[2], cb)) { ended = true; return false; } ret = a[0]; return true; }
    if (n == "memcmp" || n == "bcmp") {
        Val len = a[2];
        if (!concretize(s, len, cb, "memcmp length")) { ended = true; return false; }
        if (len.lo == 0) { retInt(0); return true; }
        Val p = a[0], q = a[1];
        if (!concretize(s, p, cb, "memcmp pointer") || !concretize(s, q, cb, "memcmp pointer")) { ended = true; return false; }
        MemObj *o1, *o2; uint64_t f1, f2;
        if (!resolve(s, p, len.lo, false, cb, o1, f1, nullptr) || !resolve(s, q, len.lo, false, cb, o2, f2, nullptr)) { ended = true; return false; }
        if (!rangeHasSym(o1, f1, len.lo) && !rangeHasSym(o2, f2, len.lo)) {
            int r = memcmp(o1->data.data() + f1, o2->data.data() + f2, len.lo);
            retInt((uint64_t)(int64_t)(r < 0 ? -1 : r > 0 ? 1 : 0)); return true;
        }
        z3::expr acc = ZC->bv_val(0, 32);
        for (uint64_t i = len.lo; i-- > 0;) {
            Val x = loadScalar(o1, f1 + i, 1, 8, false), y = loadScalar(o2, f2 + i, 1, 8, false);
            if (x.k == Val::INT && y.k == Val::INT) {
                if (x.lo != y.lo) acc = ZC->bv_val((uint64_t)(uint32_t)(x.lo < y.lo ? -1 : 1), 32);
                continue;
            }
            z3::expr xe = toBV(x), ye = toBV(y);
            acc = z3::ite(xe == ye, acc, z3::ite(z3::ult(xe, ye), ZC->bv_val((uint64_t)0xffffffffu, 32), ZC->bv_val(1, 32)));
        }
        ret = symFromBV(acc, 32); return true;
    }

    // ---------- C++ exception runtime ----------
    if (n == "__cxa_allocate_exception") { nativeUse[n.str()]++; ret = mkPtr(mallocObj(s, a[0].lo, 0, "exception")); return true; }
    if (n == "__cxa_free_exception") { freeObj(s, a[0], 0, cb); return true; }
    if (n == "__cxa_throw") {
        nativeUse[n.str()]++;
        s.inflight = {a[0].lo, a[1].lo, a[2].lo};
        if (!raise(s, false)) { ended = true; return false; }
        return false;
    }
    if (n == "__cxa_begin_catch") { s.caught.push_back(s.inflight.obj == a[0].lo ? s.inflight : ExcRec{a[0].lo, 0, 0}); ret = a[0]; return true; }
    if (n == "__cxa_end_catch") { if (!s.caught.empty()) s.caught.pop_back(); return true; }
    if (n == "__cxa_rethrow") {
        if (s.caught.empty()) { fail(s, "uncaught", "rethrow with no active exception -> std::terminate", cb, nullptr); ended = true; return false; }
        s.inflight = s.caught.back();
        if (!raise(s, false)) { ended = true; return false; }
        return false;
    }
    if (n == "__cxa_get_exception_ptr") { ret = a[0]; return true; }
    if (n == "_Unwind_Resume") { if (!raise(s, true)) { ended = true; return false; } return false; }
    if (n == "_ZSt9terminatev" || n == "__cxa_call_unexpected" || n == "abort" || n == "__cxa_pure_virtual" || n == "__clang_call_terminate") {
        fail(s, "uncaught", n.str() + " called (std::terminate / abort)", cb, nullptr); ended = true; return false;
    }
    if (n == "__cxa_atexit" || n == "__cxa_thread_atexit" || n == "atexit") { retInt(0); return true; }
    if (n == "__cxa_guard_acquire") {
        MemObj *o; uint64_t off;
        if (!resolve(s, a[0], 1, true, cb, o, off, nullptr)) { ended = true; return false; }
        retInt(o->data[off] ? 0 : 1); return true;
    }
    if (n == "__cxa_guard_release") {
        MemObj *o; uint64_t off;
        if (!resolve(s, a[0], 1, true, cb, o, off, nullptr)) { ended = true; return false; }
        o = s.mem.writable(o); o->data[off] = 1; return true;
    }
    if (n == "__cxa_guard_abort") return true;
    if (n == "__dynamic_cast") {
        nativeUse[n.str()]++;
        if (a[0].lo == 0) { ret = mkPtr(0); return true; }
        uint64_t out;
        if (!dynCast(s, a[0].lo, a[1].lo, a[2].lo, out, cb)) { ended = true; return false; }
        ret = mkPtr(out); return true;
    }
    if (n == "pthread_mutex_lock" || n == "pthread_mutex_unlock" || n == "pthread_mutex_init" || n == "pthread_mutex_destroy" ||
        n == "__pthread_key_create" || n == "pthread_once") { retInt(0); return true; }
    if (n == "_ZNSt8ios_base4InitC1Ev" || n == "_ZNSt8ios_base4InitD1Ev") return true;
    if (n == "_ZSt9use_facetISt5ctypeIcEERKT_RKSt6locale") {
        // the classic ctype facet: an object of rt/rt_libstdcxx.cpp with a hand-made vtable
        nativeUse[n.str()]++;
        GlobalVariable *g = M->getGlobalVariable("vrt_fake_ctype", true);
        if (!g || !gaddr.count(g)) throw EngineError("use_facet<ctype<char>>: rt object vrt_fake_ctype not in the module");
        ret = mkPtr(gaddr[g]); return true;
    }
    // ---------- iostream family: formatting is never a property subject; streams are inert, str() is empty ----------
    {
        std::string d = n.str();
        bool isStream = d.find("basic_stringstream") != std::string::npos || d.find("basic_ostringstream") != std::string::npos ||
                        d.find("basic_istringstream") != std::string::npos || d.rfind("_ZNSo", 0) == 0 || d.rfind("_ZNSi", 0) == 0 ||
                        d.find("__ostream_insert") != std::string::npos || d.rfind("_ZStlsISt11char_traitsIcEERSt13basic_ostream", 0) == 0 ||
                        d.rfind("_ZNSt9basic_iosIcSt11char_traitsIcEE", 0) == 0 || d.rfind("_ZNSt8ios_base", 0) == 0 || d.rfind("_ZNSt6locale", 0) == 0 ||
                        d.rfind("_ZSt4endlIcSt11char_traitsIcEERSt13basic_ostream", 0) == 0;
        if (isStream) {
            nativeUse["iostream(inert)"]++;
            if (d.find("3strEv") != std::string::npos && cb->arg_size() >= 2 && cb->hasStructRetAttr()) {
                // std::string result = "": {ptr -> local buf, len 0, buf[0] = 0}
                uint64_t r = a[0].lo;
                Type *i64 = Type::getInt64Ty(M->getContext()), *i8 = Type::getInt8Ty(M->getContext());
                if (!storeVal(s, mkPtr(r), i64, mkPtr(r + 16), cb) || !storeVal(s, mkPtr(r + 8), i64, mkInt(64, 0), cb) || !storeVal(s, mkPtr(r + 16), i8, mkInt(8, 0), cb)) { ended = true; return false; }
                return true;
            }
            if ((d.find("stringstreamIcSt11char_traitsIcESaIcEEC") != std::string::npos) && !a.empty() && a[0].k == Val::INT) {
                // constructor: zero the object so that the inlined destructor sees empty strings / null pointers
                MemObj *o = s.mem.find(a[0].lo);
                if (o && o->alive && o->kind == MemObj::STACK) { o = s.mem.writable(o); uint64_t off = a[0].lo - o->base; clearRange(o, off, o->size - off); memset(o->data.data() + off, 0, o->size - off); }
            }
            Type *rt = cb->getType();
            if (rt->isPointerTy()) ret = a.empty() ? mkPtr(0) : a[0];
            else if (rt->isIntegerTy()) ret = mkInt(rt->getIntegerBitWidth(), 0);
            return true;
        }
    }
    if (n == "__errno_location") {
        static uint64_t errnoAddr = 0;
        if (!errnoAddr || !s.mem.find(errnoAddr)) errnoAddr = s.mem.alloc(8, MemObj::GLOBAL, "errno")->base;
        ret = mkPtr(errnoAddr); return true;
    }

    // ---------- libm ----------
    auto math1 = [&](double (*fn)(double)) -> bool {
        if (a[0].k == Val::FP) { ret = mkF64(fn(asF64(a[0]))); return true; }
        ret = freshSym(s, "libm." + n.str(), 64, true);   // over-approximation: any double
        return true;
    };
    if (n == "pow") {
        nativeUse[n.str()]++;
        if (a[0].k == Val::FP && a[1].k == Val::FP) { ret = mkF64(pow(asF64(a[0]), asF64(a[1]))); return true; }
        ret = freshSym(s, "libm.pow", 64, true); return true;
    }
    if (n == "log10") return math1(log10);
    if (n == "log") return math1(log);
    if (n == "log2") return math1(log2);
    if (n == "exp") return math1(exp);
    if (n == "exp2") return math1(exp2);
    if (n == "sqrt") { ret = fpUnary("sqrt", a[0]); return true; }
    if (n == "floor") { ret = fpUnary("floor", a[0]); return true; }
    if (n == "ceil") { ret = fpUnary("ceil", a[0]); return true; }
    if (n == "round") { ret = fpUnary("round", a[0]); return true; }
    if (n == "trunc") { ret = fpUnary("trunc", a[0]); return true; }
    if (n == "fabs") { ret = fpUnary("fabs", a[0]); return true; }
    if (n == "nearbyint" || n == "rint") { ret = fpUnary("rint", a[0]); return true; }
    if (n == "fmod") { bool ok; ret = binop(s, Instruction::FRem, a[0], a[1], cb, ok); return true; }
    // std::random_device (libstdc++.so): the OS entropy source.  Modelled as an inert object whose draws are a fixed
    // documented sequence; what matters to C12 is *that* it is consulted (recorded in the natives list).
    if (n.startswith("_ZNSt13random_device")) {
        nativeUse[n.str()]++;
        if (n.contains("_M_getval") || n == "_ZNSt13random_deviceclEv") {
            if (opt.symbolicEntropy) { ret = freshSym(s, "entropy", 32, false); return true; }      // the draw is an input: any 32-bit value
            { auto fx = opt.fixedChoice.find("entropy"); if (fx != opt.fixedChoice.end()) {               // --fix entropy=k: the k-th of a few fixed draws
                uint32_t v = 0x9e3779b9u ^ ((uint32_t)fx->second * 0x01000193u);
                s.inputs.push_back({"entropy", mkInt(32, v)}); ret = mkInt(32, v); return true; } }
            static uint32_t ctr = 0; ret = mkInt(32, 0x9e3779b9u + 0x7f4a7c15u * (ctr++)); return true;
        }
        if (n.contains("_M_getentropy")) { ret = mkF64(32.0); return true; }
        return true;   // _M_init / _M_fini / _M_init_pretr1
    }
    if (n == "time") {
        // non-decreasing clock; concrete by default, the harness can override by defining its own time()
        uint64_t t = 1700000000ULL + (s.timeCtr++ / 4);
        if (a[0].lo) storeVal(s, a[0], Type::getInt64Ty(M->getContext()), mkInt(64, t), cb);
        retInt(t); return true;
    }
    handled = false;
    return true;
}
