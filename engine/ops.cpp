// nixsym: scalar operations (concrete fast path, z3 terms otherwise)
#include "exec.hpp"
using namespace llvm;


Val Executor::binop(State &s, unsigned opc, const Val &a0, const Val &b0, const Instruction *at, bool &ok) {
    ok = true;
    Val a = a0, b = b0;
    if (a.k == Val::UNDEF) { a = b.isFP() ? (b.bits == 64 ? mkF64(0) : mkF32(0)) : mkInt(b.bits, 0); }
    if (b.k == Val::UNDEF) { b = a.isFP() ? (a.bits == 64 ? mkF64(0) : mkF32(0)) : mkInt(a.bits, 0); }
    unsigned bits = a.bits;
    switch (opc) {
    case Instruction::FAdd: case Instruction::FSub: case Instruction::FMul: case Instruction::FDiv: case Instruction::FRem: {
        if (a.k == Val::FP && b.k == Val::FP) {
            if (bits == 64) {
                double x = asF64(a), y = asF64(b), r;
                switch (opc) { case Instruction::FAdd: r = x + y; break; case Instruction::FSub: r = x - y; break;
                    case Instruction::FMul: r = x * y; break; case Instruction::FDiv: r = x / y; break; default: r = fmod(x, y); }
                return mkF64(r);
            } else {
                float x = asF32(a), y = asF32(b), r;
                switch (opc) { case Instruction::FAdd: r = x + y; break; case Instruction::FSub: r = x - y; break;
                    case Instruction::FMul: r = x * y; break; case Instruction::FDiv: r = x / y; break; default: r = fmodf(x, y); }
                return mkF32(r);
            }
        }
        // IEEE-exact identities that keep arithmetic out of the formula
        if (bits == 64) {
            if (b.k == Val::FP) {
                double y = asF64(b);
                if ((opc == Instruction::FMul || opc == Instruction::FDiv) && y == 1.0) return a;
                if (opc == Instruction::FSub && y == 0.0 && !std::signbit(y)) return a;
                if (opc == Instruction::FAdd && y == 0.0 && std::signbit(y)) return a;
            }
            if (a.k == Val::FP) {
                double x = asF64(a);
                if (opc == Instruction::FMul && x == 1.0) return b;
                if (opc == Instruction::FAdd && x == 0.0 && std::signbit(x)) return b;
            }
        }
        z3::expr x = toFPx(a), y = toFPx(b);
        Z3_ast r;
        switch (opc) {
        case Instruction::FAdd: r = Z3_mk_fpa_add(*ZC, rne(), x, y); break;
        case Instruction::FSub: r = Z3_mk_fpa_sub(*ZC, rne(), x, y); break;
        case Instruction::FMul: r = Z3_mk_fpa_mul(*ZC, rne(), x, y); break;
        case Instruction::FDiv: r = Z3_mk_fpa_div(*ZC, rne(), x, y); break;
        default: throw EngineError("symbolic frem unsupported");
        }
        return mkSymFP(wrap(r), bits);
    }
    default: break;
    }
    if (a.k == Val::INT && b.k == Val::INT) {
        uint64_t x = a.lo, y = b.lo, r = 0;
        uint64_t m = maskBits(bits);
        switch (opc) {
        case Instruction::Add: r = x + y; break;
        case Instruction::Sub: r = x - y; break;
        case Instruction::Mul: r = x * y; break;
        case Instruction::UDiv: if (!y) { fail(s, "ub", "division by zero", at, nullptr); ok = false; return Val(); } r = x / y; break;
        case Instruction::URem: if (!y) { fail(s, "ub", "division by zero", at, nullptr); ok = false; return Val(); } r = x % y; break;
        case Instruction::SDiv: case Instruction::SRem: {
            int64_t sx = sext64(x, bits), sy = sext64(y, bits);
            if (!sy) { fail(s, "ub", "division by zero", at, nullptr); ok = false; return Val(); }
            if (sy == -1 && sx == sext64(1ULL << (bits - 1), bits)) { fail(s, "ub", "signed division overflow", at, nullptr); ok = false; return Val(); }
            r = (uint64_t)(opc == Instruction::SDiv ? sx / sy : sx % sy); break;
        }
        case Instruction::Shl: r = y >= bits ? 0 : x << y; break;
        case Instruction::LShr: r = y >= bits ? 0 : x >> y; break;
        case Instruction::AShr: { int64_t sx = sext64(x, bits); r = (uint64_t)(y >= bits ? (sx < 0 ? -1 : 0) : (sx >> y)); break; }
        case Instruction::And: r = x & y; break;
        case Instruction::Or: r = x | y; break;
        case Instruction::Xor: r = x ^ y; break;
        default: throw EngineError("binop: unknown opcode");
        }
        return mkInt(bits, r & m);
    }
    if (bits == 1) {
        z3::expr x = toBool(a), y = toBool(b);
        switch (opc) {
        case Instruction::And: case Instruction::Mul: return symFromBool(x && y);
        case Instruction::Or: return symFromBool(x || y);
        case Instruction::Xor: case Instruction::Add: case Instruction::Sub: return symFromBool(x != y);
        default: throw EngineError("binop on symbolic i1: unsupported opcode");
        }
    }
    // cheap identities
    if (b.k == Val::INT) {
        if (b.lo == 0 && (opc == Instruction::Add || opc == Instruction::Sub || opc == Instruction::Or || opc == Instruction::Xor ||
                          opc == Instruction::Shl || opc == Instruction::LShr || opc == Instruction::AShr)) return a;
        if (b.lo == 1 && (opc == Instruction::Mul || opc == Instruction::UDiv || opc == Instruction::SDiv)) return a;
        if (b.lo == 0 && (opc == Instruction::Mul || opc == Instruction::And)) return mkInt(bits, 0);
    }
    if (a.k == Val::INT) {
        if (a.lo == 0 && (opc == Instruction::Add || opc == Instruction::Or || opc == Instruction::Xor)) return b;
        if (a.lo == 1 && opc == Instruction::Mul) return b;
        if (a.lo == 0 && (opc == Instruction::Mul || opc == Instruction::And)) return mkInt(bits, 0);
    }
    z3::expr x = toBV(a), y = toBV(b);
    z3::expr r(*ZC);
    switch (opc) {
    case Instruction::Add: r = x + y; break;
    case Instruction::Sub: r = x - y; break;
    case Instruction::Mul: r = x * y; break;
    case Instruction::UDiv: case Instruction::URem: case Instruction::SDiv: case Instruction::SRem: {
        if (!b.conc()) {
            bool unk = false;
            if (mayBeTrue(s, y == ZC->bv_val(0, bits), unk)) {
                z3::expr bad = (y == ZC->bv_val(0, bits));
                fail(s, "ub", "division by zero", at, &bad);
            }
            addPC(s, y != ZC->bv_val(0, bits));
        }
        if (opc == Instruction::UDiv) r = z3::udiv(x, y);
        else if (opc == Instruction::URem) r = z3::urem(x, y);
        else if (opc == Instruction::SDiv) r = x / y;
        else r = z3::srem(x, y);
        break;
    }
    case Instruction::Shl: r = z3::shl(x, y); break;
    case Instruction::LShr: r = z3::lshr(x, y); break;
    case Instruction::AShr: r = z3::ashr(x, y); break;
    case Instruction::And: r = x & y; break;
    case Instruction::Or: r = x | y; break;
    case Instruction::Xor: r = x ^ y; break;
    default: throw EngineError("binop: unknown opcode");
    }
    return symFromBV(r, bits);
}

Val Executor::icmp(unsigned pred, const Val &a0, const Val &b0) {
    Val a = a0, b = b0;
    if (a.k == Val::UNDEF) a = mkInt(b.bits ? b.bits : 64, 0);
    if (b.k == Val::UNDEF) b = mkInt(a.bits, 0);
    unsigned bits = a.bits;
    if (a.k == Val::INT && b.k == Val::INT) {
        uint64_t x = a.lo, y = b.lo; int64_t sx = sext64(x, bits), sy = sext64(y, bits);
        bool r;
        switch (pred) {
        case CmpInst::ICMP_EQ: r = x == y; break; case CmpInst::ICMP_NE: r = x != y; break;
        case CmpInst::ICMP_UGT: r = x > y; break; case CmpInst::ICMP_UGE: r = x >= y; break;
        case CmpInst::ICMP_ULT: r = x < y; break; case CmpInst::ICMP_ULE: r = x <= y; break;
        case CmpInst::ICMP_SGT: r = sx > sy; break; case CmpInst::ICMP_SGE: r = sx >= sy; break;
        case CmpInst::ICMP_SLT: r = sx < sy; break; case CmpInst::ICMP_SLE: r = sx <= sy; break;
        default: throw EngineError("icmp: bad predicate");
        }
        return mkInt(1, r);
    }
    if (bits == 1) {
        z3::expr x = toBool(a), y = toBool(b);
        switch (pred) {
        case CmpInst::ICMP_EQ: return symFromBool(x == y);
        case CmpInst::ICMP_NE: return symFromBool(x != y);
        default: break;
        }
    }
    z3::expr x = toBV(a), y = toBV(b);
    z3::expr r(*ZC);
    switch (pred) {
    case CmpInst::ICMP_EQ: r = x == y; break; case CmpInst::ICMP_NE: r = x != y; break;
    case CmpInst::ICMP_UGT: r = z3::ugt(x, y); break; case CmpInst::ICMP_UGE: r = z3::uge(x, y); break;
    case CmpInst::ICMP_ULT: r = z3::ult(x, y); break; case CmpInst::ICMP_ULE: r = z3::ule(x, y); break;
    case CmpInst::ICMP_SGT: r = x > y; break; case CmpInst::ICMP_SGE: r = x >= y; break;
    case CmpInst::ICMP_SLT: r = x < y; break; case CmpInst::ICMP_SLE: r = x <= y; break;
    default: throw EngineError("icmp: bad predicate");
    }
    return symFromBool(r);
}

Val Executor::fcmp(unsigned pred, const Val &a, const Val &b) {
    if (a.k == Val::FP && b.k == Val::FP) {
        double x = a.bits == 64 ? asF64(a) : (double)asF32(a), y = b.bits == 64 ? asF64(b) : (double)asF32(b);
        bool un = std::isnan(x) || std::isnan(y), r;
        switch (pred) {
        case CmpInst::FCMP_FALSE: r = false; break; case CmpInst::FCMP_TRUE: r = true; break;
        case CmpInst::FCMP_OEQ: r = !un && x == y; break; case CmpInst::FCMP_OGT: r = !un && x > y; break;
        case CmpInst::FCMP_OGE: r = !un && x >= y; break; case CmpInst::FCMP_OLT: r = !un && x < y; break;
        case CmpInst::FCMP_OLE: r = !un && x <= y; break; case CmpInst::FCMP_ONE: r = !un && x != y; break;
        case CmpInst::FCMP_ORD: r = !un; break; case CmpInst::FCMP_UNO: r = un; break;
        case CmpInst::FCMP_UEQ: r = un || x == y; break; case CmpInst::FCMP_UGT: r = un || x > y; break;
        case CmpInst::FCMP_UGE: r = un || x >= y; break; case CmpInst::FCMP_ULT: r = un || x < y; break;
        case CmpInst::FCMP_ULE: r = un || x <= y; break; case CmpInst::FCMP_UNE: r = un || x != y; break;
        default: throw EngineError("fcmp: bad predicate");
        }
        return mkInt(1, r);
    }
    Val aa = a, bb = b;
    if (aa.k == Val::UNDEF) aa = bb.bits == 64 ? mkF64(0) : mkF32(0);
    if (bb.k == Val::UNDEF) bb = aa.bits == 64 ? mkF64(0) : mkF32(0);
    z3::expr x = toFPx(aa), y = toFPx(bb);
    auto LT = [&](const z3::expr &p, const z3::expr &q) { return wrap(Z3_mk_fpa_lt(*ZC, p, q)); };
    auto LE = [&](const z3::expr &p, const z3::expr &q) { return wrap(Z3_mk_fpa_leq(*ZC, p, q)); };
    auto EQ = [&](const z3::expr &p, const z3::expr &q) { return wrap(Z3_mk_fpa_eq(*ZC, p, q)); };
    z3::expr un = wrap(Z3_mk_fpa_is_nan(*ZC, x)) || wrap(Z3_mk_fpa_is_nan(*ZC, y));
    z3::expr r(*ZC);
    switch (pred) {
    case CmpInst::FCMP_FALSE: r = ZC->bool_val(false); break; case CmpInst::FCMP_TRUE: r = ZC->bool_val(true); break;
    case CmpInst::FCMP_OEQ: r = EQ(x, y); break; case CmpInst::FCMP_OGT: r = LT(y, x); break;
    case CmpInst::FCMP_OGE: r = LE(y, x); break; case CmpInst::FCMP_OLT: r = LT(x, y); break;
    case CmpInst::FCMP_OLE: r = LE(x, y); break; case CmpInst::FCMP_ONE: r = LT(x, y) || LT(y, x); break;
    case CmpInst::FCMP_ORD: r = !un; break; case CmpInst::FCMP_UNO: r = un; break;
    case CmpInst::FCMP_UEQ: r = un || EQ(x, y); break; case CmpInst::FCMP_UGT: r = !LE(x, y); break;
    case CmpInst::FCMP_UGE: r = !LT(x, y); break; case CmpInst::FCMP_ULT: r = !LE(y, x); break;
    case CmpInst::FCMP_ULE: r = !LT(y, x); break; case CmpInst::FCMP_UNE: r = !EQ(x, y); break;
    default: throw EngineError("fcmp: bad predicate");
    }
    return symFromBool(r);
}

Val Executor::fpUnary(const char *name, const Val &a) {
    std::string n(name);
    if (a.k == Val::FP) {
        if (a.bits == 64) {
            double x = asF64(a), r;
            if (n == "fabs") r = fabs(x); else if (n == "floor") r = floor(x); else if (n == "ceil") r = ceil(x);
            else if (n == "round") r = round(x); else if (n == "trunc") r = trunc(x); else if (n == "fneg") r = -x;
            else if (n == "rint" || n == "nearbyint") r = nearbyint(x); else if (n == "sqrt") r = sqrt(x);
            else throw EngineError("fpUnary: " + n);
            return mkF64(r);
        } else {
            float x = asF32(a), r;
            if (n == "fabs") r = fabsf(x); else if (n == "floor") r = floorf(x); else if (n == "ceil") r = ceilf(x);
            else if (n == "round") r = roundf(x); else if (n == "trunc") r = truncf(x); else if (n == "fneg") r = -x;
            else if (n == "rint" || n == "nearbyint") r = nearbyintf(x); else if (n == "sqrt") r = sqrtf(x);
            else throw EngineError("fpUnary: " + n);
            return mkF32(r);
        }
    }
    z3::expr x = toFPx(a);
    Z3_ast r;
    if (n == "fabs") r = Z3_mk_fpa_abs(*ZC, x);
    else if (n == "fneg") r = Z3_mk_fpa_neg(*ZC, x);
    else if (n == "floor") r = Z3_mk_fpa_round_to_integral(*ZC, rtn(), x);
    else if (n == "ceil") r = Z3_mk_fpa_round_to_integral(*ZC, rtp(), x);
    else if (n == "round") r = Z3_mk_fpa_round_to_integral(*ZC, rna(), x);
    else if (n == "trunc") r = Z3_mk_fpa_round_to_integral(*ZC, rtz(), x);
    else if (n == "rint" || n == "nearbyint") r = Z3_mk_fpa_round_to_integral(*ZC, rne(), x);
    else if (n == "sqrt") r = Z3_mk_fpa_sqrt(*ZC, rne(), x);
    else throw EngineError("fpUnary: " + n);
    return mkSymFP(wrap(r), a.bits);
}

Val Executor::castop(State &s, unsigned opc, const Val &a0, Type *from, Type *to, const Instruction *at, bool &ok) {
    ok = true;
    Val a = a0;
    unsigned tb = to->isPointerTy() ? 64 : (to->isIntegerTy() ? to->getIntegerBitWidth() : (to->isDoubleTy() ? 64 : (to->isFloatTy() ? 32 : 0)));
    unsigned fb = from->isPointerTy() ? 64 : (from->isIntegerTy() ? from->getIntegerBitWidth() : (from->isDoubleTy() ? 64 : (from->isFloatTy() ? 32 : 0)));
    if (!tb || !fb || tb > 64 || fb > 64) throw EngineError("cast: unsupported type width");
    if (a.k == Val::UNDEF) { if (from->isFloatingPointTy()) a = fb == 64 ? mkF64(0) : mkF32(0); else a = mkInt(fb, 0); }
    switch (opc) {
    case Instruction::Trunc:
        if (a.k == Val::INT) return mkInt(tb, a.lo);
        return symFromBV(toBV(a).extract(tb - 1, 0), tb);
    case Instruction::ZExt:
        if (a.k == Val::INT) return mkInt(tb, a.lo);
        return symFromBV(z3::zext(toBV(a), tb - fb), tb);
    case Instruction::SExt:
        if (a.k == Val::INT) return mkInt(tb, (uint64_t)sext64(a.lo, fb));
        return symFromBV(z3::sext(toBV(a), tb - fb), tb);
    case Instruction::PtrToInt: case Instruction::IntToPtr:
        if (tb == fb) return a;
        if (a.k == Val::INT) return mkInt(tb, a.lo);
        if (tb < fb) return symFromBV(toBV(a).extract(tb - 1, 0), tb);
        return symFromBV(z3::zext(toBV(a), tb - fb), tb);
    case Instruction::BitCast: case Instruction::AddrSpaceCast:
        if (from->isFloatingPointTy() == to->isFloatingPointTy()) return a;
        if (to->isFloatingPointTy()) {
            if (a.k == Val::INT) { Val r; r.k = Val::FP; r.bits = tb; r.lo = a.lo; return r; }
            return symFromFP(wrap(Z3_mk_fpa_to_fp_bv(*ZC, toBV(a), fpSort(tb))), tb);
        } else {
            if (a.k == Val::FP) return mkInt(tb, a.lo);
            return symFromBV(toBV(a), tb);
        }
    case Instruction::FPExt:
        if (a.k == Val::FP) return mkF64((double)asF32(a));
        return mkSymFP(wrap(Z3_mk_fpa_to_fp_float(*ZC, rne(), toFPx(a), fpSort(64))), 64);
    case Instruction::FPTrunc:
        if (a.k == Val::FP) return mkF32((float)asF64(a));
        return mkSymFP(wrap(Z3_mk_fpa_to_fp_float(*ZC, rne(), toFPx(a), fpSort(32))), 32);
    case Instruction::UIToFP: case Instruction::SIToFP: {
        bool sg = opc == Instruction::SIToFP;
        if (a.k == Val::INT) {
            if (tb == 64) return mkF64(sg ? (double)sext64(a.lo, fb) : (double)a.lo);
            return mkF32(sg ? (float)sext64(a.lo, fb) : (float)a.lo);
        }
        z3::expr bv = toBV(a);
        return mkSymFP(wrap(sg ? Z3_mk_fpa_to_fp_signed(*ZC, rne(), bv, fpSort(tb)) : Z3_mk_fpa_to_fp_unsigned(*ZC, rne(), bv, fpSort(tb))), tb);
    }
    case Instruction::FPToUI: case Instruction::FPToSI: {
        bool sg = opc == Instruction::FPToSI;
        // LLVM semantics: an out-of-range conversion yields poison, not immediate UB (the optimiser speculates such casts under
        // selects).  Poison is modelled as a fresh arbitrary value; a failure whose condition mentions it is annotated as UB.
        double lim = ldexp(1.0, sg ? tb - 1 : tb);
        auto poison = [&]() { static unsigned pk = 0; std::string nm = "poison.fpcast#" + std::to_string(pk++); poisonUsed++; return mkSymInt(ZC->bv_const(nm.c_str(), tb), tb); };
        if (a.k == Val::FP) {
            double x = fb == 64 ? asF64(a) : (double)asF32(a);
            bool bad = std::isnan(x) || (sg ? !(x > -lim - 1.0 && x < lim) : !(x > -1.0 && x < lim));
            if (sg && tb == 64) bad = std::isnan(x) || !(x >= -lim && x < lim);
            if (bad) return poison();
            if (sg) return mkInt(tb, (uint64_t)(int64_t)x);
            return mkInt(tb, (uint64_t)x);
        }
        z3::expr x = toFPx(a);
        z3::expr inRange(*ZC);
        auto C = [&](double d) { Val t = fb == 64 ? mkF64(d) : mkF32((float)d); return fpConstBits(t.lo, fb); };
        if (sg) {
            if (tb == 64 || fb == 32) inRange = wrap(Z3_mk_fpa_leq(*ZC, C(-lim), x)) && wrap(Z3_mk_fpa_lt(*ZC, x, C(lim)));
            else inRange = wrap(Z3_mk_fpa_lt(*ZC, C(-lim - 1.0), x)) && wrap(Z3_mk_fpa_lt(*ZC, x, C(lim)));
        } else inRange = wrap(Z3_mk_fpa_lt(*ZC, C(-1.0), x)) && wrap(Z3_mk_fpa_lt(*ZC, x, C(lim)));
        Z3_ast r = sg ? Z3_mk_fpa_to_sbv(*ZC, rtz(), x, tb) : Z3_mk_fpa_to_ubv(*ZC, rtz(), x, tb);
        z3::expr conv = wrap(r);
        bool unk = false;
        if (!mayBeTrue(s, !inRange, unk)) return symFromBV(conv, tb);
        Val p = poison();
        return symFromBV(z3::ite(inRange, conv, p.e), tb);
    }
    default: throw EngineError("cast: unsupported opcode");
    }
}
