// nixsym: interpreter core
#include "exec.hpp"
#include <fstream>
#include <llvm/Support/raw_ostream.h>
#include <iostream>
#include <sstream>
using namespace llvm;

z3::context *ZC = nullptr;

double Executor::elapsed() const { return std::chrono::duration<double>(std::chrono::steady_clock::now() - t0).count(); }

Executor::Executor(Module *m, const Options &o) : M(m), DL(&m->getDataLayout()), opt(o) {
    solver = new z3::solver(*ZC);
    t0 = std::chrono::steady_clock::now();
}

FuncInfo *Executor::getInfo(Function *f) {
    auto it = finfo.find(f);
    if (it != finfo.end()) return it->second.get();
    auto fi = std::make_unique<FuncInfo>();
    for (auto &a : f->args()) fi->idx[&a] = fi->n++;
    for (auto &bb : *f) for (auto &i : bb) if (!i.getType()->isVoidTy()) fi->idx[&i] = fi->n++;
    FuncInfo *r = fi.get();
    finfo[f] = std::move(fi);
    return r;
}

std::string Executor::locOf(const Instruction *at) {
    if (!at) return "?";
    std::string fn = at->getFunction() ? at->getFunction()->getName().str() : "?";
    if (const DebugLoc &dl = at->getDebugLoc()) {
        std::string file = "?";
        if (auto *sc = dyn_cast_or_null<DIScope>(dl.getScope())) file = sc->getFilename().str();
        std::string r = file + ":" + std::to_string(dl.getLine());
        if (DILocation *ia = dl.getInlinedAt()) {
            std::string f2 = "?";
            if (auto *sc = dyn_cast_or_null<DIScope>(ia->getScope())) f2 = sc->getFilename().str();
            r += " (inlined at " + f2 + ":" + std::to_string(ia->getLine()) + ")";
        }
        return r;
    }
    return "in " + fn;
}

// ---------------- globals ----------------
void Executor::initGlobals(State &s) {
    uint64_t fa = 0x1000;
    for (Function &f : *M) { gaddr[&f] = fa; faddr[fa] = &f; fa += 16; }
    for (GlobalVariable &g : M->globals()) {
        uint64_t sz = 64;
        Type *vt = g.getValueType();
        if (vt->isSized()) sz = DL->getTypeAllocSize(vt);
        if (g.isDeclaration() && sz < 1024) sz = 1024;
        uint64_t al = g.getAlign() ? g.getAlign()->value() : 16;
        ObjP o = s.mem.alloc(sz, MemObj::GLOBAL, g.getName().str(), al);
        o->ro = g.isConstant() && !g.isDeclaration();
        gaddr[&g] = o->base;
    }
    for (GlobalAlias &ga : M->aliases()) {
        const GlobalObject *go = ga.getAliaseeObject();
        if (go && gaddr.count(go)) gaddr[&ga] = gaddr[go];
    }
    for (GlobalVariable &g : M->globals()) {
        if (!g.hasInitializer()) {
            if (g.getName() == "__libc_single_threaded") { MemObj *o = s.mem.find(gaddr[&g]); o->data[0] = 1; }
            if (g.getName().startswith("_ZTT")) {
                // VTT of a libstdc++.so class (iostream family, inert): every slot points into a zero-filled fake vtable,
                // so that inlined constructor/destructor code finds virtual-base offset 0 instead of a wild pointer
                static uint64_t fakeVt = 0;
                if (!fakeVt) fakeVt = s.mem.alloc(1024, MemObj::GLOBAL, "fake-vtable")->base + 512;
                MemObj *o = s.mem.find(gaddr[&g]);
                for (uint64_t i = 0; i + 8 <= o->size; i += 8) memcpy(o->data.data() + i, &fakeVt, 8);
            }
            continue;
        }
        MemObj *o = s.mem.find(gaddr[&g]);
        Constant *c = g.getInitializer();
        if (c->isNullValue()) continue;
        bool ro = o->ro; o->ro = false;
        storeTyped(s, o, 0, c->getType(), evalConst(s, c));
        o->ro = ro;
    }
    parseTypeInfos();
    for (Function &f : *M) {
        if (!f.getName().startswith("__vrt__") || f.isDeclaration()) continue;
        std::string target = f.getName().substr(7).str();
        bool off = false;
        for (auto &n : opt.noReplace) if (target.find(n) != std::string::npos) off = true;
        if (off) continue;
        if (Function *t = M->getFunction(target)) redirect[t] = &f;
    }
}

Val Executor::evalConst(State &s, const Constant *c) {
    if (auto *ci = dyn_cast<ConstantInt>(c)) {
        if (ci->getBitWidth() > 64) {
            if (ci->getValue().getActiveBits() <= 64) return mkInt(64, ci->getValue().getZExtValue());  // truncated representation
            throw EngineError("wide integer constant");
        }
        return mkInt(ci->getBitWidth(), ci->getZExtValue());
    }
    if (auto *cf = dyn_cast<ConstantFP>(c)) {
        if (c->getType()->isDoubleTy()) return mkF64(cf->getValueAPF().convertToDouble());
        if (c->getType()->isFloatTy()) return mkF32(cf->getValueAPF().convertToFloat());
        throw EngineError("unsupported FP constant type");
    }
    if (isa<ConstantPointerNull>(c)) return mkPtr(0);
    if (auto *gv = dyn_cast<GlobalValue>(c)) {
        auto it = gaddr.find(gv);
        if (it == gaddr.end()) throw EngineError("address of unknown global " + gv->getName().str());
        return mkPtr(it->second);
    }
    if (isa<UndefValue>(c) || isa<ConstantAggregateZero>(c)) {
        Type *t = c->getType();
        if (t->isIntegerTy()) return mkInt(t->getIntegerBitWidth() > 64 ? 64 : t->getIntegerBitWidth(), 0);
        if (t->isPointerTy()) return mkPtr(0);
        if (t->isDoubleTy()) return mkF64(0);
        if (t->isFloatTy()) return mkF32(0);
        if (auto *st = dyn_cast<StructType>(t)) {
            std::vector<Val> v; for (unsigned i = 0; i < st->getNumElements(); i++) v.push_back(evalConst(s, Constant::getNullValue(st->getElementType(i))));
            return mkAgg(v);
        }
        if (auto *at = dyn_cast<ArrayType>(t)) {
            if (at->getNumElements() > 4096) { Val r; r.k = Val::AGG; r.agg = nullptr; return r; }  // big zero array: treated as zero by storeTyped
            std::vector<Val> v; Val z = evalConst(s, Constant::getNullValue(at->getElementType()));
            for (uint64_t i = 0; i < at->getNumElements(); i++) v.push_back(z);
            return mkAgg(v);
        }
        throw EngineError("undef/zero of unsupported type");
    }
    if (auto *ca = dyn_cast<ConstantDataSequential>(c)) {
        std::vector<Val> v;
        for (unsigned i = 0; i < ca->getNumElements(); i++) v.push_back(evalConst(s, ca->getElementAsConstant(i)));
        return mkAgg(v);
    }
    if (isa<ConstantStruct>(c) || isa<ConstantArray>(c)) {
        std::vector<Val> v;
        for (unsigned i = 0; i < c->getNumOperands(); i++) v.push_back(evalConst(s, cast<Constant>(c->getOperand(i))));
        return mkAgg(v);
    }
    if (auto *ce = dyn_cast<ConstantExpr>(c)) {
        switch (ce->getOpcode()) {
        case Instruction::GetElementPtr: {
            auto *gep = cast<GEPOperator>(ce);
            APInt off(64, 0);
            if (!gep->accumulateConstantOffset(*DL, off)) throw EngineError("non-constant constant GEP");
            Val b = evalConst(s, cast<Constant>(gep->getPointerOperand()));
            return mkPtr(b.lo + off.getZExtValue());
        }
        case Instruction::BitCast: case Instruction::AddrSpaceCast:
            return evalConst(s, ce->getOperand(0));
        case Instruction::PtrToInt: case Instruction::IntToPtr: case Instruction::Trunc: case Instruction::ZExt: case Instruction::SExt: {
            bool ok; Val a = evalConst(s, ce->getOperand(0));
            return castop(s, ce->getOpcode(), a, ce->getOperand(0)->getType(), ce->getType(), nullptr, ok);
        }
        case Instruction::Add: case Instruction::Sub: case Instruction::Mul: case Instruction::And: case Instruction::Or:
        case Instruction::Xor: case Instruction::Shl: case Instruction::LShr: case Instruction::AShr: {
            bool ok; return binop(s, ce->getOpcode(), evalConst(s, ce->getOperand(0)), evalConst(s, ce->getOperand(1)), nullptr, ok);
        }
        case Instruction::ICmp:
            return icmp(ce->getPredicate(), evalConst(s, ce->getOperand(0)), evalConst(s, ce->getOperand(1)));
        case Instruction::Select: {
            Val cnd = evalConst(s, ce->getOperand(0));
            return evalConst(s, ce->getOperand(cnd.lo ? 1 : 2));
        }
        default: throw EngineError(std::string("unsupported constant expression: ") + ce->getOpcodeName());
        }
    }
    if (auto *dso = dyn_cast<DSOLocalEquivalent>(c)) return evalConst(s, dso->getGlobalValue());
    throw EngineError("unsupported constant kind");
}

Val Executor::eval(State &s, const Value *v) {
    if (auto *c = dyn_cast<Constant>(v)) return evalConst(s, c);
    Frame &f = s.stack.back();
    auto it = f.fi->idx.find(v);
    if (it == f.fi->idx.end()) {
        if (isa<MetadataAsValue>(v)) return Val();
        throw EngineError("eval: value not in frame");
    }
    return f.regs[it->second];
}
void Executor::setReg(State &s, const Value *v, const Val &x) {
    Frame &f = s.stack.back();
    f.regs[f.fi->idx[v]] = x;
}

// ---------------- typed memory ----------------
Val Executor::loadTyped(State &s, MemObj *o, uint64_t off, Type *ty) {
    if (ty->isIntegerTy()) {
        unsigned b = ty->getIntegerBitWidth();
        if (b > 64) throw EngineError("load of wide integer");
        return loadScalar(o, off, (b + 7) / 8, b, false);
    }
    if (ty->isPointerTy()) return loadScalar(o, off, 8, 64, false);
    if (ty->isDoubleTy()) return loadScalar(o, off, 8, 64, true);
    if (ty->isFloatTy()) return loadScalar(o, off, 4, 32, true);
    if (auto *st = dyn_cast<StructType>(ty)) {
        const StructLayout *sl = DL->getStructLayout(st);
        std::vector<Val> v;
        for (unsigned i = 0; i < st->getNumElements(); i++) v.push_back(loadTyped(s, o, off + sl->getElementOffset(i), st->getElementType(i)));
        return mkAgg(v);
    }
    if (auto *at = dyn_cast<ArrayType>(ty)) {
        uint64_t es = DL->getTypeAllocSize(at->getElementType());
        std::vector<Val> v;
        for (uint64_t i = 0; i < at->getNumElements(); i++) v.push_back(loadTyped(s, o, off + i * es, at->getElementType()));
        return mkAgg(v);
    }
    throw EngineError("load of unsupported type");
}
void Executor::storeTyped(State &s, MemObj *o, uint64_t off, Type *ty, const Val &v) {
    if (ty->isIntegerTy()) {
        unsigned b = ty->getIntegerBitWidth();
        unsigned sz = (b + 7) / 8;
        if (b > 64) { if (v.k == Val::INT || v.k == Val::UNDEF) { storeScalar(o, off, sz, v); return; } throw EngineError("store of wide symbolic integer"); }
        storeScalar(o, off, sz, v); return;
    }
    if (ty->isPointerTy()) { storeScalar(o, off, 8, v); return; }
    if (ty->isDoubleTy()) { storeScalar(o, off, 8, v); return; }
    if (ty->isFloatTy()) { storeScalar(o, off, 4, v); return; }
    if (auto *st = dyn_cast<StructType>(ty)) {
        const StructLayout *sl = DL->getStructLayout(st);
        if (v.k == Val::UNDEF) return;
        for (unsigned i = 0; i < st->getNumElements(); i++) storeTyped(s, o, off + sl->getElementOffset(i), st->getElementType(i), (*v.agg)[i]);
        return;
    }
    if (auto *at = dyn_cast<ArrayType>(ty)) {
        if (v.k == Val::UNDEF || !v.agg) { clearRange(o, off, DL->getTypeAllocSize(ty)); memset(o->data.data() + off, 0, DL->getTypeAllocSize(ty)); return; }
        uint64_t es = DL->getTypeAllocSize(at->getElementType());
        for (uint64_t i = 0; i < at->getNumElements(); i++) storeTyped(s, o, off + i * es, at->getElementType(), (*v.agg)[i]);
        return;
    }
    throw EngineError("store of unsupported type");
}

// Resolve an address to (object, offset). For symbolic addresses: pick the object via a model, fork per candidate object,
// require in-bounds (else report), and return symbolic offset in *symOff.
bool Executor::resolve(State &s, const Val &addr, unsigned size, bool write, const Instruction *at, MemObj *&obj, uint64_t &off, z3::expr *symOff) {
    if (addr.k == Val::INT || addr.k == Val::UNDEF) {
        uint64_t a = addr.lo;
        MemObj *o = s.mem.find(a);
        if (!o || a + size > o->base + o->size) {
            std::ostringstream m;
            if (a < 4096) m << "null pointer dereference (address " << a << ")";
            else if (o) m << "out-of-bounds " << (write ? "write" : "read") << " of " << size << " bytes at offset " << (a - o->base) << " of " << o->size << "-byte object '" << o->name << "'";
            else m << "access to unmapped address 0x" << std::hex << a;
            fail(s, "memory", m.str(), at, nullptr);
            return false;
        }
        if (!o->alive) { fail(s, "memory", "use after free/return of object '" + o->name + "'", at, nullptr); return false; }
        if (write && o->ro) { fail(s, "memory", "write to constant object '" + o->name + "'", at, nullptr); return false; }
        if (o->kind == MemObj::FUNC) { fail(s, "memory", "data access to function", at, nullptr); return false; }
        obj = o; off = a - o->base;
        return true;
    }
    if (!symOff) throw EngineError("symbolic address where concrete required");
    // symbolic address
    z3::expr a = toBV(addr);
    z3::model mdl(*ZC);
    z3::check_result r = check(s, ZC->bool_val(true), opt.branchTimeoutMs, &mdl);
    if (r == z3::unsat) { pathsKilledAssume++; return false; }      // the path condition is infeasible (a branch taken on an undecided query): the path ends
    if (r != z3::sat) { inconclusive = true; inconclusiveWhy = "solver unknown while resolving symbolic pointer at " + locOf(at) + " (" + std::to_string(s.pc.size()) + " constraints)"; return false; }
    uint64_t av = 0;
    z3::expr ev = mdl.eval(a, true);
    if (!ev.is_numeral_u64(av)) throw EngineError("cannot evaluate symbolic pointer");
    MemObj *o = s.mem.find(av);
    if (!o || !o->alive || av + size > o->base + o->size) {
        z3::expr bad = (a == ZC->bv_val((uint64_t)av, 64));
        std::ostringstream m; m << "symbolic pointer can be 0x" << std::hex << av << std::dec << " which is " << (o ? (o->alive ? "past the end of" : "inside freed") : "outside any") << " object"
                                << (o ? " '" + o->name + "' (size " + std::to_string(o->size) + ", offset " + std::to_string(av - o->base) + ")" : std::string());
        fail(s, "memory", m.str(), at, &bad);
        return false;  // path with a wild pointer ends here (other values are covered by the in-bounds fork below if reachable)
    }
    z3::expr lo = ZC->bv_val((uint64_t)o->base, 64), hi = ZC->bv_val((uint64_t)(o->base + o->size - size), 64);
    z3::expr inb = z3::uge(a, lo) && z3::ule(a, hi);
    bool unk = false;
    if (mayBeTrue(s, !inb, unk)) {
        // Either another object or out of bounds. Fork a state for "not in this object" and let it re-resolve.
        StateP other = fork(s);
        addPC(*other, !inb);
        // re-execute the same instruction in the other state
        work.push_back(std::move(other));
    }
    addPC(s, inb);
    if (write && o->ro) { fail(s, "memory", "write to constant object '" + o->name + "'", at, nullptr); return false; }
    obj = o; off = 0;
    *symOff = (a - lo).simplify();
    uint64_t c;
    if (symOff->is_numeral_u64(c)) { off = c; *symOff = z3::expr(*ZC); }
    return true;
}

static std::vector<uint64_t> candidateOffsets(Executor &ex, State &s, MemObj *o, const z3::expr &so, unsigned size) {
    std::vector<uint64_t> c;
    if (o->size > ex.opt.maxSymObj) {
        // too large to scan: enumerate the feasible offsets with the solver (bounded); typical case: an index that the path
        // condition already pins to one or two values
        z3::expr excl = ZC->bool_val(true);
        for (;;) {
            z3::model m(*ZC);
            z3::check_result r = ex.check(s, excl, ex.opt.branchTimeoutMs, &m);
            if (r == z3::unsat) break;
            uint64_t x = 0;
            if (r != z3::sat || !m.eval(so, true).is_numeral_u64(x) || c.size() >= 64)
                throw EngineError("symbolic offset into large object '" + o->name + "' with more than 64 (or undecided) feasible values");
            c.push_back(x);
            excl = excl && (so != ZC->bv_val((uint64_t)x, 64));
        }
        return c;
    }
    // alignment step: try `size`, fall back to 1
    unsigned step = size;
    bool unk = false;
    if (step > 1) {
        z3::expr mis = z3::urem(so, ZC->bv_val((uint64_t)step, 64)) != ZC->bv_val(0, 64);
        // allow constant phase: compute phase from object layout is unknown -> test phase 0 only
        if (ex.mayBeTrue(s, mis, unk)) step = 1;
    }
    for (uint64_t x = 0; x + size <= o->size; x += step) c.push_back(x);
    if (c.size() > 64) {
        // prune by feasibility in one pass using solver for ranges: keep only feasible offsets
        std::vector<uint64_t> f;
        for (uint64_t x : c) { bool u = false; if (ex.mayBeTrue(s, so == ZC->bv_val((uint64_t)x, 64), u)) f.push_back(x); }
        return f;
    }
    return c;
}

bool Executor::loadVal(State &s, const Val &addr, Type *ty, const Instruction *at, Val &out) {
    unsigned size = DL->getTypeStoreSize(ty);
    MemObj *o; uint64_t off; z3::expr so(*ZC);
    if (!resolve(s, addr, size, false, at, o, off, &so)) return false;
    if (!(bool)so) { out = loadTyped(s, o, off, ty); return true; }
    if (ty->isAggregateType()) throw EngineError("aggregate load through symbolic pointer");
    std::vector<uint64_t> cand = candidateOffsets(*this, s, o, so, size);
    if (cand.empty()) throw EngineError("no candidate offsets for symbolic load");
    bool fp = ty->isFloatingPointTy();
    unsigned bits = ty->isPointerTy() ? 64 : (fp ? (ty->isDoubleTy() ? 64 : 32) : ty->getIntegerBitWidth());
    // constrain offset to candidates
    z3::expr any = ZC->bool_val(false);
    for (uint64_t c : cand) any = any || (so == ZC->bv_val((uint64_t)c, 64));
    addPC(s, any);
    Val acc = loadTyped(s, o, cand.back(), ty);
    z3::expr accE = fp ? toFPx(acc) : (bits == 1 ? toBool(acc) : toBV(acc));
    for (size_t i = cand.size() - 1; i-- > 0;) {
        Val v = loadTyped(s, o, cand[i], ty);
        z3::expr ve = fp ? toFPx(v) : (bits == 1 ? toBool(v) : toBV(v));
        accE = z3::ite(so == ZC->bv_val((uint64_t)cand[i], 64), ve, accE);
    }
    if (fp) out = symFromFP(accE, bits); else if (bits == 1) out = symFromBool(accE); else out = symFromBV(accE, bits);
    return true;
}

bool Executor::storeVal(State &s, const Val &addr, Type *ty, const Val &v, const Instruction *at) {
    unsigned size = DL->getTypeStoreSize(ty);
    MemObj *o; uint64_t off; z3::expr so(*ZC);
    if (!resolve(s, addr, size, true, at, o, off, &so)) return false;
    o = s.mem.writable(o);
    if (!(bool)so) { storeTyped(s, o, off, ty, v); return true; }
    if (ty->isAggregateType()) throw EngineError("aggregate store through symbolic pointer");
    std::vector<uint64_t> cand = candidateOffsets(*this, s, o, so, size);
    bool fp = ty->isFloatingPointTy();
    unsigned bits = ty->isPointerTy() ? 64 : (fp ? (ty->isDoubleTy() ? 64 : 32) : ty->getIntegerBitWidth());
    z3::expr any = ZC->bool_val(false);
    for (uint64_t c : cand) any = any || (so == ZC->bv_val((uint64_t)c, 64));
    addPC(s, any);
    z3::expr ne = fp ? toFPx(v) : (bits == 1 ? toBool(v) : toBV(v));
    for (uint64_t c : cand) {
        Val old = loadTyped(s, o, c, ty);
        z3::expr oe = fp ? toFPx(old) : (bits == 1 ? toBool(old) : toBV(old));
        z3::expr m = z3::ite(so == ZC->bv_val((uint64_t)c, 64), ne, oe);
        Val nv = fp ? symFromFP(m, bits) : (bits == 1 ? symFromBool(m) : symFromBV(m, bits));
        storeTyped(s, o, c, ty, nv);
    }
    return true;
}

bool Executor::concretize(State &s, Val &v, const Instruction *at, const char *what, unsigned maxVals) {
    if (v.k == Val::INT) return true;
    if (v.k == Val::UNDEF) { v = mkInt(v.bits ? v.bits : 64, 0); return true; }
    if (!v.sym() || v.symfp) throw EngineError(std::string("concretize: non-integer ") + what);
    // enumerate feasible values, fork for each (bounded)
    z3::expr e = v.bits == 1 ? z3::ite(v.e, ZC->bv_val(1, 1), ZC->bv_val(0, 1)) : v.e;
    std::vector<uint64_t> vals;
    z3::expr excl = ZC->bool_val(true);
    for (;;) {
        z3::model m(*ZC);
        z3::check_result r = check(s, excl, opt.branchTimeoutMs, &m);
        if (r == z3::unsat) break;
        if (r != z3::sat) { inconclusive = true; inconclusiveWhy = std::string("solver unknown while concretizing ") + what + " at " + locOf(at); return false; }
        uint64_t x; if (!m.eval(e, true).is_numeral_u64(x)) throw EngineError("concretize eval");
        vals.push_back(x);
        excl = excl && (e != ZC->bv_val((uint64_t)x, v.bits));
        if (vals.size() > maxVals) {
            inconclusive = true; inconclusiveWhy = std::string("more than ") + std::to_string(maxVals) + " values for symbolic " + what + " at " + locOf(at);
            return false;
        }
    }
    if (vals.empty()) return false;
    for (size_t i = 1; i < vals.size(); i++) {
        StateP o = fork(s);
        addPC(*o, e == ZC->bv_val((uint64_t)vals[i], v.bits));
        work.push_back(std::move(o));   // re-executes the same instruction, now with a single feasible value
    }
    addPC(s, e == ZC->bv_val((uint64_t)vals[0], v.bits));
    v = mkInt(v.bits, vals[0]);
    return true;
}

bool Executor::memCopy(State &s, const Val &d, const Val &sr, const Val &n0, const Instruction *at, bool move) {
    Val n = n0;
    if (!concretize(s, n, at, "memcpy length")) return false;
    if (n.lo == 0) return true;
    MemObj *so, *dobj; uint64_t soff, doff;
    Val dd = d, ss = sr;
    if (!concretize(s, dd, at, "memcpy destination")) return false;
    if (!concretize(s, ss, at, "memcpy source")) return false;
    if (!resolve(s, ss, n.lo, false, at, so, soff, nullptr)) return false;
    if (!resolve(s, dd, n.lo, true, at, dobj, doff, nullptr)) return false;
    bool same = so == dobj;
    dobj = s.mem.writable(dobj);
    if (same) so = dobj;
    copyRange(dobj, doff, so, soff, n.lo);
    return true;
}
bool Executor::memSet(State &s, const Val &d, const Val &c, const Val &n0, const Instruction *at) {
    Val n = n0;
    if (!concretize(s, n, at, "memset length")) return false;
    if (n.lo == 0) return true;
    Val dd = d;
    if (!concretize(s, dd, at, "memset destination")) return false;
    MemObj *o; uint64_t off;
    if (!resolve(s, dd, n.lo, true, at, o, off, nullptr)) return false;
    o = s.mem.writable(o);
    clearRange(o, off, n.lo);
    if (c.k == Val::INT || c.k == Val::UNDEF) memset(o->data.data() + off, (int)(c.lo & 0xff), n.lo);
    else for (uint64_t i = 0; i < n.lo; i++) { Cell ce; ce.size = 1; ce.v = c; o->sym[off + i] = ce; }
    return true;
}
uint64_t Executor::mallocObj(State &s, uint64_t size, int heapKind, const std::string &name) {
    ObjP o = s.mem.alloc(size, MemObj::HEAP, name);
    o->heapKind = heapKind;
    // fresh heap memory: deterministic junk to expose uninitialised reads as wrong values rather than lucky zeros
    memset(o->data.data(), 0xAB, size);
    s.mem.heapBytes += size;
    return o->base;
}
bool Executor::freeObj(State &s, const Val &p0, int heapKind, const Instruction *at) {
    Val p = p0;
    if (!concretize(s, p, at, "freed pointer")) return false;
    if (p.lo == 0) return true;
    MemObj *o = s.mem.find(p.lo);
    if (!o || o->base != p.lo || o->kind != MemObj::HEAP) { fail(s, "memory", "free of a pointer that is not a heap block", at, nullptr); return false; }
    if (!o->alive) { fail(s, "memory", "double free of '" + o->name + "'", at, nullptr); return false; }
    o = s.mem.writable(o);
    o->alive = false; o->data.clear(); o->data.shrink_to_fit(); o->sym.clear();
    return true;
}
std::string Executor::readCString(State &s, uint64_t addr, size_t max) {
    std::string r;
    MemObj *o = s.mem.find(addr);
    if (!o || !o->alive) return "<bad-ptr>";
    for (uint64_t off = addr - o->base; off < o->size && r.size() < max; off++) {
        if (rangeHasSym(o, off, 1)) { r += '?'; continue; }
        if (!o->data[off]) break;
        r += (char)o->data[off];
    }
    return r;
}

// ---------------- solver ----------------
static bool exprHasFPArith(const z3::expr &e, std::set<unsigned> &seen, int &budget) {
    if (!e.is_app() || budget-- <= 0) return false;
    if (!seen.insert(e.id()).second) return false;
    Z3_decl_kind k = e.decl().decl_kind();
    switch (k) {
    case Z3_OP_FPA_ADD: case Z3_OP_FPA_SUB: case Z3_OP_FPA_MUL: case Z3_OP_FPA_DIV: case Z3_OP_FPA_FMA: case Z3_OP_FPA_SQRT: case Z3_OP_FPA_REM:
        return true;
    default: break;
    }
    for (unsigned i = 0; i < e.num_args(); i++) if (exprHasFPArith(e.arg(i), seen, budget)) return true;
    return false;
}
// "heavy" floating point: anything that needs bit-level arithmetic circuits (not mere comparisons)
static bool exprHeavyFP(const z3::expr &e, std::set<unsigned> &seen, int &budget) {
    if (!e.is_app() || budget-- <= 0) return false;
    if (!seen.insert(e.id()).second) return false;
    switch (e.decl().decl_kind()) {
    case Z3_OP_FPA_ADD: case Z3_OP_FPA_SUB: case Z3_OP_FPA_MUL: case Z3_OP_FPA_DIV: case Z3_OP_FPA_FMA: case Z3_OP_FPA_SQRT: case Z3_OP_FPA_REM:
    case Z3_OP_FPA_ROUND_TO_INTEGRAL: case Z3_OP_FPA_TO_UBV: case Z3_OP_FPA_TO_SBV: case Z3_OP_FPA_TO_FP: case Z3_OP_FPA_TO_FP_UNSIGNED:
        return true;
    default: break;
    }
    for (unsigned i = 0; i < e.num_args(); i++) if (exprHeavyFP(e.arg(i), seen, budget)) return true;
    return false;
}
static bool isHeavy(const z3::expr &e) { std::set<unsigned> seen; int b = 5000; return exprHeavyFP(e, seen, b); }
void Executor::addPC(State &s, const z3::expr &c) {
    z3::expr sc = c.simplify();
    if (sc.is_true()) return;
    if (!s.pcHasFP && isHeavy(sc)) s.pcHasFP = true;
    s.pc.push_back(sc);
    s.fact[sc.id()] = true;
    if (sc.is_not()) s.fact[sc.arg(0).id()] = false; else s.fact[(!sc).simplify().id()] = false;
    if (sc.is_and()) for (unsigned i = 0; i < sc.num_args(); i++) { z3::expr a = sc.arg(i); s.fact[a.id()] = true; if (a.is_not()) s.fact[a.arg(0).id()] = false; }
}
// ---- parallel portfolio (second round of heavy queries) ----
#include <thread>
#include <atomic>
#include <mutex>
#include <condition_variable>
#include <csignal>
#include <sys/wait.h>
#include <unistd.h>
z3::check_result Executor::parallelCheck(const z3::expr &f, unsigned timeoutMs, z3::model *outModel) {
    struct Worker { z3::context *ctx = nullptr; z3::check_result res = z3::unknown; bool done = false; Z3_model mdl = nullptr; std::thread th; };
    const int NW = 3;
    Worker w[NW];
    std::mutex mu; std::condition_variable cv; int finished = 0; std::atomic<int> winner(-1);
    Z3_ast tfs[NW];
    for (int k = 0; k < NW; k++) { w[k].ctx = new z3::context(); tfs[k] = Z3_translate(*ZC, f, *w[k].ctx); Z3_inc_ref(*w[k].ctx, tfs[k]); }   // all contexts and translations before any worker starts
    // external solvers on the SMT-LIB text (started before the threads: fork() in a single-threaded process)
    std::string file = "/tmp/nixsym_q_" + std::to_string(getpid()) + ".smt2";
    { z3::solver plain(*ZC); plain.add(f); std::ofstream o(file); o << "(set-logic ALL)\n" << plain.to_smt2(); }
    pid_t pids[2] = {-1, -1}; int fds[2] = {-1, -1};
    std::string tl0 = "--tlimit=" + std::to_string(timeoutMs), tl1 = "-T:" + std::to_string(timeoutMs / 1000 + 1);
    for (int e = 0; e < 2; e++) {
        int pp[2]; if (pipe(pp) != 0) continue;
        pid_t pid = ::fork();
        if (pid == 0) {
            dup2(pp[1], 1); dup2(pp[1], 2); close(pp[0]); close(pp[1]);
            if (e == 0) execlp("cvc5", "cvc5", "-q", tl0.c_str(), file.c_str(), (char *)nullptr);
            else execlp("z3-new", "z3-new", tl1.c_str(), file.c_str(), (char *)nullptr);
            _exit(127);
        }
        close(pp[1]); pids[e] = pid; fds[e] = pp[0];
    }
    for (int k = 0; k < NW; k++) {
        Z3_ast tf = tfs[k];
        w[k].th = std::thread([&, k, tf]() {
            z3::context &c = *w[k].ctx;
            z3::check_result rr = z3::unknown;
            try {
                z3::expr ff(c, tf);
                z3::tactic tac = k == 0 ? (z3::tactic(c, "simplify") & z3::tactic(c, "fpa2bv") & z3::tactic(c, "simplify") & z3::tactic(c, "bit-blast") & z3::tactic(c, "sat"))
                               : k == 1 ? z3::tactic(c, "qffpbv") : z3::tactic(c, "smt");
                z3::solver so = tac.mk_solver();
                z3::params p(c); p.set("timeout", timeoutMs); so.set(p);
                so.add(ff);
                rr = so.check();
                if (rr == z3::sat) { z3::model m = so.get_model(); Z3_model_inc_ref(c, m); w[k].mdl = m; }
            } catch (z3::exception &) { rr = z3::unknown; }
            std::lock_guard<std::mutex> lk(mu);
            w[k].res = rr; w[k].done = true; finished++;
            if (rr != z3::unknown) { int exp = -1; winner.compare_exchange_strong(exp, k); }
            cv.notify_all();
        });
    }
    z3::check_result result = z3::unknown; int extWinner = -1;
    auto deadline = std::chrono::steady_clock::now() + std::chrono::milliseconds(timeoutMs + 2000);
    std::string extOut[2];
    for (;;) {
        { std::unique_lock<std::mutex> lk(mu); cv.wait_for(lk, std::chrono::milliseconds(100)); }
        int wk = winner.load();
        if (wk >= 0) { result = w[wk].res; break; }
        // poll the external processes
        for (int e = 0; e < 2 && extWinner < 0; e++) {
            if (pids[e] <= 0) continue;
            int st; pid_t r = waitpid(pids[e], &st, WNOHANG);
            if (r == pids[e]) {
                char buf[512]; ssize_t n; while ((n = read(fds[e], buf, sizeof buf)) > 0) extOut[e].append(buf, (size_t)n);
                close(fds[e]); pids[e] = -1;
                if (extOut[e].find("(error") == std::string::npos) {
                    bool un = extOut[e].find("unsat") != std::string::npos, sa = !un && extOut[e].find("sat") != std::string::npos;
                    if (un) { result = z3::unsat; extWinner = e; }
                    else if (sa && !outModel) { result = z3::sat; extWinner = e; }
                }
            }
        }
        if (extWinner >= 0) break;
        bool allDone; { std::lock_guard<std::mutex> lk(mu); allDone = finished == NW; }
        if (allDone && pids[0] <= 0 && pids[1] <= 0) break;
        if (std::chrono::steady_clock::now() > deadline) break;
    }
    for (int k = 0; k < NW; k++) w[k].ctx->interrupt();
    for (int e = 0; e < 2; e++) if (pids[e] > 0) { kill(pids[e], SIGKILL); int st; waitpid(pids[e], &st, 0); close(fds[e]); }
    for (int k = 0; k < NW; k++) w[k].th.join();
    int wk = winner.load();
    if (extWinner < 0 && wk >= 0) {
        result = w[wk].res; stratWins[wk]++;
        if (result == z3::sat && outModel && w[wk].mdl) *outModel = z3::model(*ZC, Z3_model_translate(*w[wk].ctx, w[wk].mdl, *ZC));
    } else if (extWinner >= 0) extWins[extWinner]++;
    for (int k = 0; k < NW; k++) { if (w[k].mdl) Z3_model_dec_ref(*w[k].ctx, w[k].mdl); delete w[k].ctx; }
    unlink(file.c_str());
    return result;
}

// free variables (uninterpreted constants) of an expression, memoised by expression id
static std::unordered_map<unsigned, std::shared_ptr<std::vector<unsigned>>> g_varCache;
static void collectVars(const z3::expr &e, std::set<unsigned> &seen, std::set<unsigned> &out) {
    if (!e.is_app()) return;
    if (!seen.insert(e.id()).second) return;
    if (e.num_args() == 0) { if (e.decl().decl_kind() == Z3_OP_UNINTERPRETED) out.insert(e.id()); return; }
    for (unsigned i = 0; i < e.num_args(); i++) collectVars(e.arg(i), seen, out);
}
static const std::vector<unsigned> &varsOf(const z3::expr &e) {
    auto it = g_varCache.find(e.id());
    if (it != g_varCache.end()) return *it->second;
    std::set<unsigned> seen, out; collectVars(e, seen, out);
    auto v = std::make_shared<std::vector<unsigned>>(out.begin(), out.end());
    if (g_varCache.size() > 2000000) g_varCache.clear();
    g_varCache[e.id()] = v;
    return *v;
}
z3::check_result Executor::check(State &s, const z3::expr &extra, unsigned timeoutMs, z3::model *outModel) {
    auto t = std::chrono::steady_clock::now();
    if (s.pcHasFP || isHeavy(extra)) {
        // constraint independence: only the path constraints that (transitively) share a variable with the query can
        // influence its satisfiability, PROVIDED the rest of the path condition is satisfiable - which is an invariant of
        // every live state (a path is only continued on a side that was found feasible or not refuted).  A model is only
        // complete for the slice, so queries that want a model are solved over the whole path condition.
        std::vector<char> take(s.pc.size(), 0);
        bool sliced = false;
        if (!outModel && !opt.noSlice) {
            std::set<unsigned> vars(varsOf(extra).begin(), varsOf(extra).end());
            bool grew = true;
            while (grew) {
                grew = false;
                for (size_t i = 0; i < s.pc.size(); i++) {
                    if (take[i]) continue;
                    const std::vector<unsigned> &cv = varsOf(s.pc[i]);
                    bool hit = false;
                    for (unsigned v : cv) if (vars.count(v)) { hit = true; break; }
                    if (hit) { take[i] = 1; grew = true; for (unsigned v : cv) vars.insert(v); }
                }
            }
            sliced = true;
        }
        bool heavy = isHeavy(extra);
        if (sliced && !heavy) for (size_t i = 0; i < s.pc.size() && !heavy; i++) if (take[i] && isHeavy(s.pc[i])) heavy = true;
        if (!sliced) heavy = true;
        // one-shot portfolio.  No single z3 strategy is robust on floating point: "qffpbv" decides the arithmetic kernels
        // (mul/div/round) in a fraction of a second but runs for minutes on some comparison-heavy queries that the plain
        // bit-blasting pipeline or the SMT core close in 0.1 s, and vice versa.  Strategies are tried in turn with short
        // budgets first, then with the full budget; the first definite answer wins (they are all sound and complete).
        z3::check_result r = z3::unknown;
        z3::model keep(*ZC);
        struct Try { int strat; unsigned ms; };
        std::vector<Try> plan;
        if (heavy) plan = {{0, 1500}, {1, 3000}, {2, 1500}};
        else plan = {{2, timeoutMs}, {0, timeoutMs}};
        unsigned spent = 0;
        for (auto &tr : plan) {
            if (tr.ms > timeoutMs) tr.ms = timeoutMs;
            if (spent >= 2 * timeoutMs + 6000) break;
            z3::tactic tac = tr.strat == 0 ? (z3::tactic(*ZC, "simplify") & z3::tactic(*ZC, "fpa2bv") & z3::tactic(*ZC, "simplify") & z3::tactic(*ZC, "bit-blast") & z3::tactic(*ZC, "sat"))
                           : tr.strat == 1 ? z3::tactic(*ZC, "qffpbv") : z3::tactic(*ZC, "smt");
            z3::solver one = tac.mk_solver();
            z3::params p(*ZC); p.set("timeout", tr.ms); one.set(p);
            for (size_t i = 0; i < s.pc.size(); i++) if (!sliced || take[i]) one.add(s.pc[i]);
            one.add(extra);
            try { r = one.check(); } catch (z3::exception &e) { r = z3::unknown; }
            spent += tr.ms;
            if (r == z3::sat && outModel) *outModel = one.get_model();
            if (r != z3::unknown) { stratWins[tr.strat]++; break; }
        }
        if (heavy && r == z3::unknown && timeoutMs > 3000) {
            // second round: the three strategies in parallel threads (each in its own z3 context) plus cvc5 and z3 5.1 as external
            // processes on the exported SMT-LIB text; the first definite answer wins, the others are interrupted.  An external
            // "sat" is only used when no model is needed.
            z3::expr_vector conj(*ZC);
            for (size_t i = 0; i < s.pc.size(); i++) if (!sliced || take[i]) conj.push_back(s.pc[i]);
            conj.push_back(extra);
            z3::expr f = z3::mk_and(conj);
            r = parallelCheck(f, timeoutMs, outModel);
        }
        if (opt.dumpAll && !opt.dumpDir.empty()) {
            static int na = 0; std::ofstream df(opt.dumpDir + "/q" + std::to_string(na++) + (r == z3::sat ? ".sat" : r == z3::unsat ? ".unsat" : ".unknown") + ".smt2");
            z3::solver plain(*ZC); for (size_t i = 0; i < s.pc.size(); i++) if (!sliced || take[i]) plain.add(s.pc[i]); plain.add(extra);
            df << plain.to_smt2();
        }
        if (r == z3::unknown && !opt.dumpDir.empty()) {
            static int nd = 0; std::ofstream df(opt.dumpDir + "/unknown" + std::to_string(nd++) + ".smt2");
            z3::solver plain(*ZC); for (size_t i = 0; i < s.pc.size(); i++) if (!sliced || take[i]) plain.add(s.pc[i]); plain.add(extra);
            df << plain.to_smt2();
        }
        qTotal++; qHeavy++; if (r == z3::sat) qSat++; else if (r == z3::unsat) qUnsat++; else qUnknown++;
        double dt = std::chrono::duration<double>(std::chrono::steady_clock::now() - t).count();
        solverS += dt; if (dt > slowestQ) slowestQ = dt;
        if (opt.profile) {
            std::string where = "?";
            if (!s.stack.empty()) { auto &fr = s.stack.back(); where = fr.fn->getName().str().substr(0, 60); if (fr.pc != fr.bb->end()) where += " @ " + locOf(&*fr.pc); }
            auto &pr = profile[where]; pr.first++; pr.second += dt;
        }
        return r;
    }
    // sync solver stack with path condition
    size_t k = 0;
    while (k < solverStackIds.size() && k < s.pc.size() && solverStackIds[k] == s.pc[k].id()) k++;
    if (k < solverStackIds.size()) { solver->pop(solverStackIds.size() - k); solverStackIds.resize(k); }
    for (; k < s.pc.size(); k++) { solver->push(); solver->add(s.pc[k]); solverStackIds.push_back(s.pc[k].id()); }
    z3::params p(*ZC); p.set("timeout", timeoutMs); solver->set(p);
    solver->push();
    solver->add(extra);
    z3::check_result r;
    try { r = solver->check(); } catch (z3::exception &e) { r = z3::unknown; }
    if (r == z3::sat && outModel) *outModel = solver->get_model();
    solver->pop();
    if (r == z3::unknown) {
        // the incremental core gave up (time-out): retry once with a fresh solver and the bit-blasting strategy
        qRetry++;
        bool fp = false;
        for (auto &c : s.pc) if (c.to_string().find("fp.") != std::string::npos) { fp = true; break; }
        z3::tactic tac(*ZC, fp ? "qffpbv" : "qfbv");
        z3::solver one = tac.mk_solver();
        z3::params p2(*ZC); p2.set("timeout", timeoutMs * 3); one.set(p2);
        for (auto &c : s.pc) one.add(c);
        one.add(extra);
        try { r = one.check(); } catch (z3::exception &e) { r = z3::unknown; }
        if (r == z3::sat && outModel) *outModel = one.get_model();
    }
    qTotal++; if (r == z3::sat) qSat++; else if (r == z3::unsat) qUnsat++; else qUnknown++;
    solverS += std::chrono::duration<double>(std::chrono::steady_clock::now() - t).count();
    return r;
}
bool Executor::mayBeTrue(State &s, const z3::expr &c, bool &unknown) {
    unknown = false;
    z3::expr sc = c.simplify();
    if (sc.is_true()) return true;
    if (sc.is_false()) return false;
    auto it = s.fact.find(sc.id());
    if (it != s.fact.end()) { qCached++; return it->second; }
    z3::check_result r = check(s, sc, opt.branchTimeoutMs);
    if (r == z3::unknown) { unknown = true; return true; }
    if (r == z3::unsat) { s.fact[sc.id()] = false; if (sc.is_not()) s.fact[sc.arg(0).id()] = true; else s.fact[(!sc).simplify().id()] = true; }
    return r == z3::sat;
}
StateP Executor::fork(State &s) {
    StateP n = std::make_unique<State>(s);
    n->id = nextStateId++;
    forks++;
    return n;
}
void Executor::branchOn(State &s, const z3::expr &c, bool &canT, bool &canF) {
    bool u1 = false, u2 = false;
    canT = mayBeTrue(s, c, u1);
    if (!canT) { canF = true; return; }
    canF = mayBeTrue(s, !c, u2);
    if (u1 || u2) {
        // undecided feasibility: explore both sides (sound), remember that labels reached later may be on an infeasible path
        if (opt.verbose) errs() << "[nixsym] branch feasibility unknown at state " << s.id << "\n";
    }
}

// ---------------- failures ----------------
static std::string valToString(const z3::expr &ev, const Val &v) {
    std::ostringstream o;
    if (v.isFP()) {
        z3::expr bv = wrap(Z3_mk_fpa_to_ieee_bv(*ZC, ev)).simplify();
        uint64_t u = 0;
        if (bv.is_numeral_u64(u)) {
            if (v.bits == 64) { double d; memcpy(&d, &u, 8); char b[64]; snprintf(b, sizeof b, "%a", d); o << "f64:" << b << ":0x" << std::hex << u; }
            else { uint32_t w = (uint32_t)u; float f; memcpy(&f, &w, 4); char b[64]; snprintf(b, sizeof b, "%a", (double)f); o << "f32:" << b << ":0x" << std::hex << u; }
        } else {
            // NaN: to_ieee_bv is unspecified -> canonical quiet NaN
            if (v.bits == 64) o << "f64:nan:0x7ff8000000000000"; else o << "f32:nan:0x7fc00000";
        }
        return o.str();
    }
    uint64_t u = 0;
    if (ev.is_bool()) { o << "i1:" << (ev.is_true() ? 1 : 0); return o.str(); }
    if (ev.is_numeral_u64(u)) { o << "i" << v.bits << ":" << u; return o.str(); }
    return "?" + ev.to_string();
}
void Executor::fillModel(State &s, Failure &f, z3::model *m) {
    for (auto &in : s.inputs) {
        if (in.v.conc()) {
            std::ostringstream o;
            if (in.v.k == Val::FP) { if (in.v.bits == 64) { char b[64]; snprintf(b, sizeof b, "%a", asF64(in.v)); o << "f64:" << b << ":0x" << std::hex << in.v.lo; } else { char b[64]; snprintf(b, sizeof b, "%a", (double)asF32(in.v)); o << "f32:" << b << ":0x" << std::hex << in.v.lo; } }
            else o << "i" << in.v.bits << ":" << in.v.lo;
            f.model.push_back({in.name, o.str()});
            continue;
        }
        if (!m) { f.model.push_back({in.name, "?"}); continue; }
        z3::expr ev = m->eval(in.v.e, true);
        f.model.push_back({in.name, valToString(ev, in.v)});
    }
    f.choices = s.choices;
    for (auto it = s.stack.rbegin(); it != s.stack.rend() && f.stack.size() < 12; ++it) {
        std::string l = it->fn->getName().str();
        if (it->pc != it->bb->end()) l += " @ " + locOf(&*it->pc);
        f.stack.push_back(l);
    }
}
bool Executor::report(State &s, const std::string &kind, const std::string &msg, const Instruction *at, const z3::expr &bad, bool hard) {
    Failure f; f.kind = kind; f.msg = msg; f.loc = locOf(at);
    f.func = at && at->getFunction() ? at->getFunction()->getName().str() : "";
    std::string key = kind + "|" + msg.substr(0, 80) + "|" + f.loc;
    for (auto &c : s.choices) key += "|" + c;      // distinct choice vectors (menu entries, histories) are distinct findings
    if (failures.size() >= 300) return true;
    unsigned tmo = opt.assertTimeoutMs;
    if (opt.concrete) {
        if (opt.dedupFailures && failureKeys.count(key)) return true;
        failureKeys.insert(key); fillModel(s, f, nullptr); failures.push_back(f);
        return true;
    }
    if (poisonUsed && bad.to_string().find("poison.fpcast") != std::string::npos)
        f.msg += " [the failing condition depends on the result of an out-of-range float-to-integer conversion: undefined behaviour (float-cast-overflow)]";
    z3::expr notKnown = ZC->bool_val(true);
    std::vector<std::pair<std::string, z3::expr>> act;
    for (auto &k : s.known) if (opt.knownIds.count(k.first)) { act.push_back(k); notKnown = notKnown && !k.second; }
    bool feasible = false;
    // (a) outside every known finding
    if (!(opt.dedupFailures && failureKeys.count(key))) {
        z3::model m(*ZC);
        z3::check_result r = check(s, bad && notKnown, tmo, &m);
        if (r == z3::unknown) { inconclusive = true; inconclusiveWhy = "solver gave no verdict within budget for '" + msg + "' at " + f.loc; feasible = true; }
        else if (r == z3::sat) {
            feasible = true; failureKeys.insert(key); fillModel(s, f, &m); failures.push_back(f);
            if (opt.verbose) errs() << "[nixsym] FAILURE " << kind << ": " << msg << " at " << f.loc << "\n";
        }
    } else feasible = true;
    // (b) inside each known finding
    for (auto &k : act) {
        if (knownHits.count(k.first)) { if (!feasible) { bool u; if (mayBeTrue(s, bad && k.second, u)) feasible = true; } continue; }
        z3::model m(*ZC);
        z3::check_result r = check(s, bad && k.second, tmo, &m);
        if (r == z3::sat) { Failure kf = f; kf.model.clear(); kf.knownFinding = true; kf.findingId = k.first; fillModel(s, kf, &m); knownHits[k.first] = kf; feasible = true; }
        else if (r == z3::unknown) { feasible = true; }
    }
    (void)hard;
    return feasible;
}
void Executor::fail(State &s, const std::string &kind, const std::string &msg, const Instruction *at, const z3::expr *extra) {
    report(s, kind, msg, at, extra ? *extra : ZC->bool_val(true), true);
}
