#!/bin/bash
# runs every thorough check once (used in the background through `vp run`); results in out_thorough/<id>.log
mkdir -p out_thorough
for p in ${PROPS:-C10 C11 C12 C09 C04 C08 C02 C16 C19 C13 C14 C15 C17 C18 C20 C03 C07 C01 C05 C06}; do
  /usr/bin/time -f "$p %es %MKB" ./vcheck run $p --tier thorough > out_thorough/$p.log 2>&1
  echo "$p rc=$? $(tail -1 out_thorough/$p.log | cut -c1-200)"
done
