#!/bin/bash
# confirm_seed.sh <worktree> <seed-id>: independent confirmation of a seeded change produced by a sub-agent.
#   builds the worktree with the patch, runs the unedited test-suite serially, runs the demo (must fail),
#   reverts the patch, rebuilds, runs the demo (must pass).  Copies patch/demo/notes to /verif/seeded/<seed-id>/.
set -u
WT=$1; ID=$2; OUT=/verif/seeded/$ID; mkdir -p $OUT
cd $WT || exit 2
cp SEED/patch.diff SEED/demo.cpp $OUT/ 2>/dev/null; cp SEED/NOTES.md $OUT/NOTES.md 2>/dev/null
git checkout -q -- src include backend 2>/dev/null
git apply SEED/patch.diff || { echo "patch does not apply"; exit 2; }
[ -d _build ] || cmake -G Ninja -B _build -DCMAKE_BUILD_TYPE=RelWithDebInfo -DCMAKE_CXX_FLAGS=-Wno-error . >/dev/null
cmake --build _build -j16 2>&1 | tail -1
T_WITH=$(ctest --test-dir _build -j1 --timeout 900 2>&1 | grep -E "tests passed|tests failed" | tr '\n' ' ')
mkdir -p _demo && cd _demo && rm -f *.h5 *.nix
g++ -std=c++11 -I$WT/include -I$WT/_build/include -I/usr/include/hdf5/serial ../SEED/demo.cpp -o demo -L$WT/_build -lnixio -lhdf5_serial -Wl,-rpath,$WT/_build 2>&1 | grep -E "error" | head -3
./demo > with.out 2>&1; RC_WITH=$?
cd $WT; git apply -R SEED/patch.diff; cmake --build _build -j16 2>&1 | tail -1
T_WITHOUT=$(ctest --test-dir _build -j1 --timeout 900 2>&1 | grep -E "tests passed|tests failed" | tr '\n' ' ')
cd _demo; rm -f *.h5 *.nix
g++ -std=c++11 -I$WT/include -I$WT/_build/include -I/usr/include/hdf5/serial ../SEED/demo.cpp -o demo -L$WT/_build -lnixio -lhdf5_serial -Wl,-rpath,$WT/_build 2>&1 | grep -E "error" | head -3
./demo > without.out 2>&1; RC_WITHOUT=$?
echo "seed=$ID tests_with_patch='$T_WITH' tests_without='$T_WITHOUT' demo_with_patch_rc=$RC_WITH demo_without_rc=$RC_WITHOUT"
echo "{\"tests_with_patch\": \"$T_WITH\", \"tests_without_patch\": \"$T_WITHOUT\", \"demo_rc_with_patch\": $RC_WITH, \"demo_rc_without_patch\": $RC_WITHOUT, \"demo_tail_with_patch\": $(tail -3 with.out | python3 -c 'import json,sys; print(json.dumps(sys.stdin.read()[-600:]))')}" > $OUT/confirm.json
