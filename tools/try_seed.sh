#!/bin/bash
# try_seed.sh <seed-id> <property> [more vcheck args]
# Apply a seeded change to a scratch worktree of /repo's HEAD (so that /repo itself stays usable meanwhile), run the
# property's quick check against it (VERIF_REPO), remove the worktree.  Evidence and run output go to a scratch dir.
ID=$1; PROP=$2; shift 2
W=/tmp/seedrepo_$ID.$PROP
git -C /repo worktree remove --force $W >/dev/null 2>&1
git -C /repo worktree add -f $W HEAD >/dev/null 2>&1 || { echo "worktree failed"; exit 2; }
mkdir -p $W/_build && cp -r /repo/_build/include $W/_build/
git -C $W apply /verif/seeded/$ID/patch.diff || { echo "patch does not apply"; git -C /repo worktree remove --force $W; exit 2; }
cd /verif
VERIF_REPO=$W VERIF_OUT=/tmp/seedout_$ID.$PROP VERIF_EVIDENCE=/tmp/seedout_$ID.$PROP/evidence ./vcheck run $PROP --tier ${TIER:-quick} "$@" > /tmp/try_$ID.$PROP.log 2>&1; RC=$?
git -C /repo worktree remove --force $W
echo "seed=$ID property=$PROP rc=$RC $(grep -c '^VIOLATION' /tmp/try_$ID.$PROP.log) violations"; grep -E "^VIOLATION|^INCONCLUSIVE|^OK" -A1 /tmp/try_$ID.$PROP.log | cut -c1-260 | head -6
rm -rf /tmp/seedout_$ID.$PROP
