#!/bin/bash
# Validation of the HDF5 model against nix's own test-suite: the model is built as a shared object and pre-loaded in front of
# libhdf5, then every CppUnit suite of /repo/_build/TestRunner is run on it (in a scratch directory).  Files live in the model's
# memory; a real empty file is touched for each created file because nix asks the OS whether a file exists.
set -u
V=$(cd "$(dirname "$0")/.." && pwd); B=${1:-/repo/_build}
W=$(mktemp -d); trap 'rm -rf "$W"' EXIT
cat > $W/touch.c <<'EOT'
#include <stdio.h>
void h5m_native_touch(const char *name) { FILE *f = fopen(name, "ab"); if (f) { fputc('x', f); fclose(f); } }
EOT
gcc -shared -fPIC -O1 -w -DH5M_NATIVE_TOUCH -I/usr/include/hdf5/serial -I$V/h5model $V/h5model/h5model.c $W/touch.c -o $W/libh5model.so || exit 2
cd $W; cp $B/*.nix . 2>/dev/null
pass=0; fail=0; failed=""
for t in $(cd $B && ctest -N | sed -n 's/ *Test *#[0-9]*: //p'); do
  if LD_PRELOAD=$W/libh5model.so LD_LIBRARY_PATH=$B $B/TestRunner $t > $W/$t.log 2>&1; then pass=$((pass+1)); else fail=$((fail+1)); failed="$failed $t"; fi
done
echo "h5model validation: $pass suites pass on the model, $fail fail:$failed"
for t in $failed; do grep -E "Test name|assertion|uncaught" $W/$t.log | head -6; done
[ $fail -eq 0 ]
