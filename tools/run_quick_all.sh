#!/bin/bash
# every quick check once, sequentially (each uses all cores); summary line per property
cd "$(dirname "$0")/.."
for p in ${PROPS:-C01 C02 C03 C04 C05 C06 C07 C08 C09 C10 C11 C12 C13 C14 C15 C16 C17 C18 C19 C20}; do
  s=$(date +%s); ./vcheck run $p --tier quick > out/quick_$p.log 2>&1; rc=$?
  echo "$p rc=$rc $(( $(date +%s) - s ))s $(grep -E '^OK|^VIOLATION|^INCONCLUSIVE' out/quick_$p.log | head -1 | cut -c1-150)"
done
