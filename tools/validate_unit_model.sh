#!/bin/bash
# Translator validation for the unit grammar: the hand-written matcher of rt/rt_nix.cpp (which stands in for boost::regex inside the
# engine) is compiled natively and compared with the real nix functions on every prefix x unit x power string, on junk and on compounds.
set -u
V=$(cd "$(dirname "$0")/.." && pwd); R=${VERIF_REPO:-/repo}; B=${1:-$R/_build}
W=$(mktemp -d); trap 'rm -rf "$W"' EXIT
cat > $W/drv.cpp <<'EOT'
#include <nix.hpp>
#include <cstdio>
#include <string>
#include <vector>
extern "C" int h5m_file_exists(const char *) { return 0; }
namespace vrt {
bool isAtomicSIUnit(const std::string &u) __asm__("__vrt___ZN3nix4util14isAtomicSIUnitERKNSt7__cxx1112basic_stringIcSt11char_traitsIcESaIcEEE"); bool isCompoundSIUnit(const std::string &u) __asm__("__vrt___ZN3nix4util16isCompoundSIUnitERKNSt7__cxx1112basic_stringIcSt11char_traitsIcESaIcEEE");
void splitUnit(const std::string &c, std::string &prefix, std::string &unit, std::string &power) __asm__("__vrt___ZN3nix4util9splitUnitERKNSt7__cxx1112basic_stringIcSt11char_traitsIcESaIcEEERS6_S9_S9_");
void splitCompoundUnit(const std::string &cu, std::vector<std::string> &atomic) __asm__("__vrt___ZN3nix4util17splitCompoundUnitERKNSt7__cxx1112basic_stringIcSt11char_traitsIcESaIcEEERSt6vectorIS6_SaIS6_EE");
}
int main() {
    const char *P[] = {"", "Y","Z","E","P","T","G","M","k","h","da","d","c","m","u","n","p","f","a","z","y"};
    const char *U[] = {"m","g","s","A","K","mol","cd","Hz","N","Pa","J","W","C","V","F","S","Wb","T","H","lm","lx","Bq","Gy","Sv","kat","l","L","Ohm","%","dB","rad"};
    const char *W[] = {"", "^2", "^-1", "^3", "^-3", "^+2", "^10", "^0", "^", "^a"};
    std::vector<std::string> in;
    for (auto p : P) for (auto u : U) for (auto w : W) in.push_back(std::string(p) + u + w);
    for (auto s : {"", "foo", "parsec", "mm", "mmm", "kkg", "m s", "m/s", "mV*s", "mV/ms^2", "m*", "/s", "kg*m^2/s^3", "mV*", "m//s", "Hz*foo", " m", "m ", "µV", "1/s", "N*m", "dam", "cd/m^2", "mol/l", "Ohm*m", "%/s"}) in.push_back(s);
    long bad = 0, n = 0;
    for (auto &s : in) {
        n++;
        bool a1 = nix::util::isAtomicSIUnit(s), a2 = vrt::isAtomicSIUnit(s), c1 = nix::util::isCompoundSIUnit(s), c2 = vrt::isCompoundSIUnit(s);
        std::string p1, u1, w1, p2, u2, w2;
        nix::util::splitUnit(s, p1, u1, w1); vrt::splitUnit(s, p2, u2, w2);
        bool same = a1 == a2 && c1 == c2 && p1 == p2 && u1 == u2 && w1 == w2;
        if (c1 && c2) { std::vector<std::string> v1, v2; nix::util::splitCompoundUnit(s, v1); vrt::splitCompoundUnit(s, v2); same = same && v1 == v2; }
        if (!same) { if (bad < 10) printf("MISMATCH '%s': atomic %d/%d compound %d/%d split [%s|%s|%s] / [%s|%s|%s]\n", s.c_str(), a1, a2, c1, c2, p1.c_str(), u1.c_str(), w1.c_str(), p2.c_str(), u2.c_str(), w2.c_str()); bad++; }
    }
    printf("unit model validation: %ld strings, %ld mismatches\n", n, bad);
    return bad ? 1 : 0;
}
EOT
g++ -std=c++11 -w -I$R/include -I$B/include -I/usr/include/hdf5/serial -I$V/h5model -I$V/harness $W/drv.cpp $V/rt/rt_nix.cpp -o $W/drv -L$B -lnixio -lboost_filesystem -lboost_system -Wl,-rpath,$B 2>&1 | grep -E "error|undefined|multiple" | head -8
$W/drv
