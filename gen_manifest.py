#!/usr/bin/env python3
"""Regenerate MANIFEST.json from harness/specs.py (claimed checks) and not_applicable.json (the rest)."""
import json, os, sys
V = os.path.dirname(os.path.abspath(__file__))
sys.path.insert(0, os.path.join(V, "harness"))
import specs
props = [json.loads(l) for l in open(os.path.join(V, "properties.jsonl"))]
na = json.load(open(os.path.join(V, "not_applicable.json")))
checks, nalist = [], []
for p in props:
    pid = p["id"]
    s = specs.SPECS.get(pid)
    if not s or s.get("unclaimed"):
        nalist.append({"property_id": pid, "reason": na.get(pid, "no check built yet for this property (work in progress); the mechanism is reachable only through the full HDF5 back-end harness tier")})
        continue
    checks.append({
        "property_id": pid,
        "quick_cmd": "./vcheck run %s --tier quick" % pid,
        "thorough_cmd": "./vcheck run %s --tier thorough" % pid,
        "evidence_file": "evidence/%s.json" % pid,
        "replay_cmd_template": "./vcheck replay {path}",
        "engine": "nixsym",
        "technique": s.get("technique", "bounded symbolic execution of the real code's LLVM IR (own engine nixsym) with SMT (z3) deciding every path, assertion and memory-safety query"),
        "level_claimed": {"category": "other", "text": s.get("level_text", "Bounded symbolic verification of the implementation: the solver's verdict covers every input within the bounds listed in the evidence; nothing is claimed outside them. " + s.get("explanation", "")), "design_ref": "DESIGN.md section 3 (%s)" % pid},
        "level_note": s.get("level_note", "Trusted: clang-14 IR = what g++ executes (-ffp-contract=off), the nixsym engine (instruction semantics, memory model, C++ EH/RTTI natives), z3 4.8.12, the h5model stand-in for libhdf5 where the harness uses the HDF5 back-end (validated by running nix's own 62 test executables on it), the listed replacement functions (time/id/number formatting). Outside: " + "; ".join(s.get("outside", []))),
    })
m = {
 "version": 1,
 "setup_cmd": "./vcheck setup",
 "hooks": {"guard": "NIX_VERIF", "enable": "none needed: the engine calls any function of the IR module directly; observation goes through public getters", "baseline_off_cmd": "cmake --build /repo/_build -j16 && ctest --test-dir /repo/_build -j1 --timeout 900", "source_commits": [], "add_only": True},
 "engines": [{"name": "nixsym", "path": "engine/", "serves_properties": [c["property_id"] for c in checks], "kind_free_text": "symbolic executor for LLVM-14 IR (concrete fast path + z3 terms, forking, object memory with bounds/lifetime checks, C++ EH and RTTI), SMT back-end z3 (incremental for bit-vector queries, one-shot bit-blasting tactic for floating point)"},
             {"name": "h5model", "path": "h5model/", "serves_properties": [c["property_id"] for c in checks], "kind_free_text": "in-memory C model of the HDF5 1.10 API subset nix uses; executed symbolically with the code under analysis"}],
 "checks": checks,
 "not_applicable": nalist,
 "notes": "All checks: exit 0 = held within bounds; exit 1 + VIOLATION line = counterexample; exit 2 = inconclusive (budget/solver unknown/engine error) - never reported as success. Known findings: known_findings.json.",
}
json.dump(m, open(os.path.join(V, "MANIFEST.json"), "w"), indent=1)
print("claimed:", [c["property_id"] for c in checks], "n/a:", [n["property_id"] for n in nalist])
